#!/usr/bin/env python3
"""Regenerate the seeded-changes table in DESIGN.md (between the SEEDTABLE markers) from seeded/*/meta.json."""
import json, os, glob, re
V = os.path.dirname(os.path.dirname(os.path.abspath(__file__)))
rows = []
missed = 0
unreported = set()
for d in sorted(glob.glob(os.path.join(V, "seeded", "C*", ""))):
    m = json.load(open(d + "meta.json"))
    name = os.path.basename(d.rstrip("/"))
    res = m["quick_check_exit_codes_with_change_applied"]
    rep, silent = [], []
    for k, v in res.items():
        if v == 1:
            rep.append(k)
        elif v == 0:
            silent.append(k)
        elif "NOT REPORTED" in str(v):
            silent.append(k + " (**not reported**: outside the enumerated space, see section 6)")
            unreported.add(name)
        elif str(v).startswith("1"):
            rep.append(k + " (thanks to a strengthening made shortly before)")
        else:
            rep.append(k + " (missed at first, reported after strengthening)")
            missed += 1
    needs = m["needs_to_manifest"].split(". NOTE")[0]
    rows.append("| %s | %s | %s | %s |" % (name, needs[:260], ", ".join(rep), ", ".join(silent) or "-"))
table = "| seed | what it needs in order to manifest | reported by (quick tier) | also run, silent |\n|------|------|------|------|\n" + "\n".join(rows)
never = [r for r in unreported if not any(v == 1 or (isinstance(v, str) and "NOT REPORTED" not in v) for v in json.load(open(os.path.join(V, "seeded", r, "meta.json")))["quick_check_exit_codes_with_change_applied"].values())]
table += "\n\n%d seeded changes; %d of them are reported by at least one quick check, %d by none (%s); %d check/seed pairs were missed when first run and led to the strengthenings described in the seeds' meta.json files and summarised below.\n" % (len(rows), len(rows) - len(never), len(never), ", ".join("`%s`" % n for n in never) or "-", missed)
p = os.path.join(V, "DESIGN.md")
s = open(p).read()
repl = "<!-- SEEDTABLE-BEGIN -->\n" + table + "\n<!-- SEEDTABLE-END -->"
s = re.sub(r"<!-- SEEDTABLE-BEGIN -->.*?<!-- SEEDTABLE-END -->", lambda m: repl, s, flags=re.S)
open(p, "w").write(s)
print(len(rows), "seeds,", missed, "first-run misses")
