#!/usr/bin/env python3
"""Regenerate the seeded-changes table in DESIGN.md (between the SEEDTABLE markers) from seeded/*/meta.json."""
import json, os, glob, re
V = os.path.dirname(os.path.dirname(os.path.abspath(__file__)))
rows = []
missed = 0
for d in sorted(glob.glob(os.path.join(V, "seeded", "C*", ""))):
    m = json.load(open(d + "meta.json"))
    name = os.path.basename(d.rstrip("/"))
    res = m["quick_check_exit_codes_with_change_applied"]
    rep, silent = [], []
    for k, v in res.items():
        if v == 1:
            rep.append(k)
        elif v == 0:
            silent.append(k)
        elif str(v).startswith("1"):
            rep.append(k + " (thanks to a strengthening made shortly before)")
        else:
            rep.append(k + " (missed at first, reported after strengthening)")
            missed += 1
    needs = m["needs_to_manifest"].split(". NOTE")[0]
    rows.append("| %s | %s | %s | %s |" % (name, needs[:260], ", ".join(rep), ", ".join(silent) or "-"))
table = "| seed | what it needs in order to manifest | reported by (quick tier) | also run, silent |\n|------|------|------|------|\n" + "\n".join(rows)
table += "\n\n%d seeded changes, all reported by at least one quick check; %d check/seed pairs were missed when first run and led to the strengthenings described in the seeds' meta.json files and summarised below.\n" % (len(rows), missed)
p = os.path.join(V, "DESIGN.md")
s = open(p).read()
repl = "<!-- SEEDTABLE-BEGIN -->\n" + table + "\n<!-- SEEDTABLE-END -->"
s = re.sub(r"<!-- SEEDTABLE-BEGIN -->.*?<!-- SEEDTABLE-END -->", lambda m: repl, s, flags=re.S)
open(p, "w").write(s)
print(len(rows), "seeds,", missed, "first-run misses")
