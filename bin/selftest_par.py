#!/usr/bin/env python3
"""Parallel machinery self-test (not a MANIFEST command): like bin/selftest.py, but W workers, each with its own scratch
worktree of /repo under /tmp (removed afterwards) and its own build directory (build/*-<hash>), so /repo is not touched.
usage: bin/selftest_par.py [W] [substring filter] [comma-separated check IDs: only these checks are run]
env ST_TAG: suffix for the scratch worktrees / evidence directories (two self-tests can run side by side)"""
import json, os, subprocess, sys, threading
V = os.path.dirname(os.path.dirname(os.path.abspath(__file__)))
W = int(sys.argv[1]) if len(sys.argv) > 1 else 4
flt = sys.argv[2] if len(sys.argv) > 2 else ""
only = set(sys.argv[3].split(",")) if len(sys.argv) > 3 else None
tag = os.environ.get("ST_TAG", "")
exp = [(p, [x for x in c if only is None or x in only]) for p, c in json.load(open(os.path.join(V, "mutants", "EXPECT.json"))).items() if flt in p]
exp = [(p, c) for p, c in exp if c]
head = subprocess.run(["git", "-C", "/repo", "rev-parse", "HEAD"], capture_output=True, text=True).stdout.strip()
lock = threading.Lock()
bad = []


def worker(w):
    wt = "/tmp/st%s-%d" % (tag, w)
    subprocess.run(["git", "-C", "/repo", "worktree", "remove", "--force", wt], capture_output=True)
    subprocess.run(["git", "-C", "/repo", "worktree", "add", "--detach", wt, head], capture_output=True, check=True)
    env = dict(os.environ, VERIF_REPO=wt, VERIF_JOBS=str(max(2, (os.cpu_count() or 4) // W)),
               VERIF_EVIDENCE_DIR=os.path.join(V, "build", "mutant-evidence%s-%d" % (tag, w)))
    try:
        for i, (patch, checks) in enumerate(exp):
            if i % W != w:
                continue
            a = subprocess.run(["git", "-C", wt, "apply", os.path.join(V, patch)], capture_output=True, text=True)
            rcs = {}
            if a.returncode == 0:
                for c in checks:
                    p = subprocess.run([os.path.join(V, "check"), c, "quick"], capture_output=True, text=True, env=env, cwd=V)
                    rcs[c] = p.returncode
            subprocess.run(["git", "-C", wt, "checkout", "--", "."], capture_output=True)
            ok = a.returncode == 0 and all(rcs.get(c) == 1 for c in checks)
            with lock:
                print("%-4s %-62s %s%s" % ("ok" if ok else "MISS", patch, " ".join("%s:rc=%s" % (c, rcs.get(c, "?")) for c in checks),
                                           "" if a.returncode == 0 else "  (patch does not apply)"), flush=True)
                if not ok:
                    bad.append(patch)
    finally:
        subprocess.run(["git", "-C", "/repo", "worktree", "remove", "--force", wt], capture_output=True)
        subprocess.run(["git", "-C", "/repo", "worktree", "prune"], capture_output=True)


ts = [threading.Thread(target=worker, args=(w,)) for w in range(W)]
for t in ts:
    t.start()
for t in ts:
    t.join()
print("missed: %d" % len(bad))
sys.exit(1 if bad else 0)
