"""Registry of property checks: binary, configurations per tier, evidence texts."""

MC = "bounded-exhaustive explicit-state exploration of the real crates (stateless enumeration of all inputs/programs in the stated space) against a slice-based reference model"

CHECKS = {
    "C14": {
        "bin": "c14",
        "cfgs": {"quick": ["dD", "rD"], "thorough": ["dD", "rD", "rN"]},
        "technique": MC + "; full-domain sweep of the rounding function",
        "rule": "one leaf per (header kind, slice length, start alignment, declared size), all combinations enumerated; plus one leaf per block of the rounding sweep. distinct by construction (the generator is injective). non-trivial = the call reached the declared-size comparison or produced one of the four errors / a success (i.e. everything except BytesRef-only bookkeeping)",
        "require_classes": ["rfs:ok", "rfs:ShorterThanHeader", "rfs:WrongAlignment", "rfs:MissingPadding", "rfs:InvalidReportedTotalSize", "rounding:block"],
        "assumptions": ["x86-64 Linux, little-endian, 4 KiB pages", "necessity only: the property says 'succeeds only if' (DESIGN 6)"],
    },
    "C02": {
        "bin": "c02",
        "cfgs": {"quick": ["dD", "rD"], "thorough": ["dD", "rD", "dN", "rN"]},
        "technique": MC,
        "rule": "one leaf per (total-size word, reserved word, type word of the last 8 bytes, size word of the last 8 bytes) plus the null pointer; all combinations enumerated, distinct by construction. non-trivial = total size below 16 or not a multiple of 8, or the verdict is Ok, or one of the two end-tag words is the well-formed one (boundary of the end-tag test)",
        "require_classes": ["load:Null", "load:ShorterThanHeader", "load:MissingPadding", "load:NoEndTag", "load:Ok"],
        "assumptions": ["the region is as large as it declares (precondition of the property); sizes beyond 1 MiB + 16 are not explored"],
    },
    "C10": {
        "bin": "c10",
        "cfgs": {"quick": ["dD", "rD"], "thorough": ["dD", "rD", "dN", "rN"]},
        "technique": MC + "; full-domain sweep of the checksum law over all 2^32 lengths",
        "rule": "one leaf per (magic, architecture, length word, checksum word) plus the null pointer, and one leaf per block of the checksum-law sweep; all combinations enumerated, distinct by construction; every leaf is non-trivial (each exercises one comparison of the acceptance predicate or one block of the law)",
        "require_classes": ["load:Null", "load:ShorterThanHeader", "load:MissingPadding", "load:MagicNotFound", "load:ChecksumMismatch", "load:Ok", "sweep:block"],
        "assumptions": ["the architecture word holds a defined value (0 or 4) as the property requires", "the header region is as large as it declares"],
    },
    "C13": {
        "bin": "c13",
        "cfgs": {"quick": ["dD", "rD"], "thorough": ["dD", "rD", "rN"]},
        "technique": MC,
        "rule": "one leaf per (buffer length, first-magic position or none, stored length word, second-magic variant); states are distinct buffer images (hash of bytes and length); every leaf is non-trivial (each sits on a boundary of the window / alignment / truncation tests)",
        "require_classes": ["find:none", "find:error", "find:found"],
        "assumptions": ["buffers start 8-aligned (precondition of the property)"],
    },
    "C20": {
        "bin": "c20",
        "cfgs": {"quick": ["dD", "rD"], "thorough": ["dD", "rD", "rN"]},
        "technique": "exhaustive enumeration of the complete 32-bit domain (release) / of a boundary lattice (dev) against tabulated reference conversions",
        "rule": "one leaf per block of a sweep (2^20 consecutive values, or 1024 lattice rows), per framebuffer type byte and for the constants; every value of the stated domain is evaluated exactly once per law; distinct by construction; all leaves non-trivial",
        "require_classes": ["sweep:block", "fbtype:known", "fbtype:unknown", "magic"],
        "assumptions": [],
    },
    "C03": {
        "bin": "c03",
        "cfgs": {"quick": ["dD", "rD"], "thorough": ["dD", "rD", "rN"]},
        "technique": MC + "; all iterator call histories up to a depth, states = (region bytes, sorted reference cursors)",
        "rule": "walk body: one leaf per choice vector (type, size at every offset the reference walk reaches); history body: one leaf per (payload, call sequence). states = distinct payload images, plus (payload, sorted model cursors) after every history step. non-trivial = the region has at least one tag or must be refused; every history leaf",
        "require_classes": ["walk:complete", "walk:refused", "modules:complete", "history:done", "load:ok"],
        "assumptions": ["regions are as large as they declare"],
    },
    "C05": {
        "bin": "c05",
        "cfgs": {"quick": ["dD", "rD"], "thorough": ["dD", "rD", "dN", "rN"]},
        "technique": MC,
        "rule": "one leaf per (DST kind, declared size, framebuffer variant, seam); every declared size of the stated interval is enumerated for every kind; distinct by construction; all leaves non-trivial (each is one size residue / boundary of one fixed-part constant)",
        "require_classes": ["view:ok", "view:refused"],
        "assumptions": ["enumerated fields of the header tag hold defined values"],
    },
    "C17": {
        "bin": "c17",
        "cfgs": {"quick": ["dD", "rD"], "thorough": ["dD", "rD", "dN", "rN"]},
        "technique": MC,
        "rule": "parse side: one leaf per (string kind, declared content byte string, padding variant, seam/successor); build side: one leaf per (string kind, text). every string of the stated alphabets and lengths is enumerated; distinct by construction; non-trivial = non-empty content or region-level leaf",
        "require_classes": ["parse:text", "parse:utf8-error", "parse:missing-nul"],
        "assumptions": ["texts with an interior NUL that do not end in NUL: only the read-back rule is checked (the property does not state how they are stored)"],
    },
    "C18": {
        "bin": "c18",
        "cfgs": {"quick": ["dD", "rD"], "thorough": ["dD", "rD", "rN"]},
        "technique": MC + "; all iterator call histories up to a depth",
        "rule": "canonical body: one leaf per (desc_size, desc_version, map length), all combinations; history body: one leaf per (input, call sequence). states: inputs by construction plus (input, sorted model cursors) after every history step. non-trivial = valid combination, or desc_size divides the length, or version 1; every history leaf",
        "require_classes": ["efi:complete", "efi:refused-at-construction", "history:done"],
        "assumptions": ["descriptor contents are byte markers (no random contents): every byte position of the 40-byte prefix is distinguishable"],
    },
}
