"""Registry of property checks: binary, configurations per tier, evidence texts."""

MC = "bounded-exhaustive explicit-state exploration of the real crates (stateless enumeration of all inputs/programs in the stated space) against a slice-based reference model"

CHECKS = {
    "C14": {
        "bin": "c14",
        "cfgs": {"quick": ["dD", "rD"], "thorough": ["dD", "rD", "rN"]},
        "technique": MC + "; full-domain sweep of the rounding function",
        "rule": "one leaf per (header kind, slice length, start alignment, declared size), all combinations enumerated; plus one leaf per block of the rounding sweep. distinct by construction (the generator is injective). non-trivial = the call reached the declared-size comparison or produced one of the four errors / a success (i.e. everything except BytesRef-only bookkeeping)",
        "require_classes": ["rfs:ok", "rfs:ShorterThanHeader", "rfs:WrongAlignment", "rfs:MissingPadding", "rfs:InvalidReportedTotalSize", "rounding:block"],
        "assumptions": ["x86-64 Linux, little-endian, 4 KiB pages", "necessity only: the property says 'succeeds only if' (DESIGN 6)"],
    },
}
