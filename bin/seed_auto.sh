#!/bin/sh
# usage: bin/seed_auto.sh <worktree> <seed-subdir> <seed-name> <ID> [<ID>...]
# infers the crate for the demo from the seed's README, then calls seed_verify.sh
WT="$1"; SUB="$2"; NAME="$3"; shift 3
R="$WT/$SUB/README.md"
CRATE=multiboot2
grep -q "multiboot2-header/tests" "$R" 2>/dev/null && CRATE=multiboot2-header
grep -q "multiboot2-common/tests" "$R" 2>/dev/null && CRATE=multiboot2-common
ARGS="-"
[ -n "${DEMOARGS:-}" ] && ARGS="$DEMOARGS"
SEEDDIR="$SUB" /verif/bin/seed_verify.sh "$NAME" "$WT" "$CRATE" "$ARGS" "$@" 2>&1 | cut -c1-220 | grep -a -E "^(demo|==|  key|patch does)"
