#!/bin/sh
# usage: bin/seed_verify.sh <seed-name> <worktree> <crate-for-demo> <extra cargo args for demo or -> <ID> [<ID>...]
# Confirms an independently produced property-breaking change: suite passes with it, the demonstration fails
# with it and passes without it; then runs the named quick checks against it (on /repo, reverted afterwards)
# and files it under /verif/seeded/<seed-name>/.
set -u
NAME="$1"; WT="$2"; CRATE="$3"; DEMOARGS="$4"; shift 4
[ "$DEMOARGS" = "-" ] && DEMOARGS=""
cd "$WT" || exit 2
git checkout -q -- . ; rm -f */tests/seed_demo.rs
git apply ${SEEDDIR:-seed}/patch.diff || { echo "patch does not apply"; exit 2; }
SUITE=$(cargo test --workspace --no-fail-fast --offline 2>&1 | grep -E '^test result' | head -3 | tr '\n' ' ')
echo "suite with change: $SUITE"
mkdir -p $CRATE/tests; cp ${SEEDDIR:-seed}/demo.rs $CRATE/tests/seed_demo.rs
cargo test -p $CRATE --offline --test seed_demo $DEMOARGS > /tmp/seed.$$.with 2>&1; RC_WITH=$?
git checkout -q -- .
cargo test -p $CRATE --offline --test seed_demo $DEMOARGS > /tmp/seed.$$.without 2>&1; RC_WITHOUT=$?
rm -f $CRATE/tests/seed_demo.rs
echo "demo with change rc=$RC_WITH  ($(grep -E '^test result' /tmp/seed.$$.with | head -1)) ; without rc=$RC_WITHOUT ($(grep -E '^test result' /tmp/seed.$$.without | head -1))"
rm -f /tmp/seed.$$.with /tmp/seed.$$.without
mkdir -p /verif/seeded/$NAME
cp ${SEEDDIR:-seed}/patch.diff /verif/seeded/$NAME/patch.diff
cp ${SEEDDIR:-seed}/demo.rs /verif/seeded/$NAME/demo.rs
cp ${SEEDDIR:-seed}/README.md /verif/seeded/$NAME/README.md 2>/dev/null
cd /verif
RES=$(SHOW=${SHOW:-3} bin/mutant.sh seeded/$NAME/patch.diff "$@" 2>&1)
echo "$RES" | cut -c1-300
echo "$RES" | grep -a '^== ' > /verif/seeded/$NAME/check_results.txt
echo "suite: $SUITE" >> /verif/seeded/$NAME/check_results.txt
echo "demo: with change rc=$RC_WITH, without rc=$RC_WITHOUT (cargo test -p $CRATE --offline --test seed_demo $DEMOARGS)" >> /verif/seeded/$NAME/check_results.txt
