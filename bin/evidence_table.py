#!/usr/bin/env python3
"""Print a markdown table of what the committed evidence files record."""
import json, glob, os
V = os.path.dirname(os.path.dirname(os.path.abspath(__file__)))
print("| property | tier | configurations | leaves executed | transitions | states | wall s | violations | known findings |")
print("|---|---|---|---|---|---|---|---|---|")
for f in sorted(glob.glob(os.path.join(V, "evidence", "C*.json"))):
    e = json.load(open(f))
    c = e["coverage"]
    cfgs = sorted({k.split(":")[-1] for k in c.get("configurations", {})})
    print("| %s | %s | %s | %s | %s | %s | %s | %s | %s |" % (e["property_id"], e["tier"], " ".join(cfgs), f"{c['evaluations']:,}", f"{c['transitions']:,}", f"{c['states']:,}", e["wall_s"], e.get("violations", 0), len(c.get("known_findings_reproduced", []))))
