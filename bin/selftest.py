#!/usr/bin/env python3
"""Machinery self-test (not a MANIFEST command): every patch in mutants/EXPECT.json is applied to /repo, the
quick checks expected to report it are run (exit 1 + VIOLATION required), and /repo is reverted.
usage: bin/selftest.py [substring filter]   env SUITE=1 also runs the repository's suite with each patch."""
import json, os, subprocess, sys
V = os.path.dirname(os.path.dirname(os.path.abspath(__file__)))
exp = json.load(open(os.path.join(V, "mutants", "EXPECT.json")))
flt = sys.argv[1] if len(sys.argv) > 1 else ""
bad = 0
for patch, checks in exp.items():
    if flt not in patch:
        continue
    p = subprocess.run([os.path.join(V, "bin", "mutant.sh"), os.path.join(V, patch)] + checks, capture_output=True, text=True,
                       env=dict(os.environ, SHOW="0"))
    rcs = {}
    for l in p.stdout.splitlines():
        if l.startswith("== "):
            parts = l.split()
            rcs[parts[2]] = parts[3]
    ok = all(rcs.get(c) == "rc=1" for c in checks)
    suite = [l for l in p.stdout.splitlines() if l.startswith("test result")]
    print("%-4s %-62s %s %s" % ("ok" if ok else "MISS", patch, " ".join("%s:%s" % (c, rcs.get(c, "?")) for c in checks),
                               ("suite:" + ("FAILED" if any("FAILED" in s for s in suite) else "passes")) if suite else ""), flush=True)
    if "patch does not apply" in p.stdout or "repo not clean" in p.stdout:
        print("    " + p.stdout.strip()[:200])
    bad += 0 if ok else 1
print("missed: %d" % bad)
sys.exit(1 if bad else 0)
