#!/bin/sh
# usage: bin/mutant.sh <patch-file> <ID> [<ID>...]   (machinery self-test helper, not a MANIFEST command)
# applies the patch to /repo, optionally runs the repository's suite, runs the quick checks, reverts.
set -u
P="$(readlink -f "$1")"; shift
cd /repo || exit 2
if [ -n "$(git status --porcelain --untracked-files=no)" ]; then echo "repo not clean"; exit 2; fi
git apply "$P" || { echo "patch does not apply"; exit 2; }
trap 'git -C /repo checkout -- . ' EXIT
if [ "${SUITE:-0}" = 1 ]; then
  cargo test --workspace --no-fail-fast --offline 2>&1 | grep -E '^test result|FAILED|failed' | head -8
fi
cd /verif
# runs against a modified tree must not overwrite the committed evidence
export VERIF_EVIDENCE_DIR=/verif/build/mutant-evidence
for id in "$@"; do
  ./check "$id" "${TIER:-quick}" > /tmp/mutant.$$.out 2>&1; rc=$?
  echo "== $(basename $P) $id rc=$rc  $(grep -a -c '^VIOLATION' /tmp/mutant.$$.out) violation lines"
  grep -a -A1 '^VIOLATION' /tmp/mutant.$$.out | grep -a -v '^--' | head -${SHOW:-4}
  grep -a 'MACHINERY\|HARNESS-PANIC' /tmp/mutant.$$.out | head -3
done
rm -f /tmp/mutant.$$.out
