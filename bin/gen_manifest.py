#!/usr/bin/env python3
"""Regenerate MANIFEST.json from bin/registry.py (run after adding a check)."""
import json, os, subprocess, sys
V = os.path.dirname(os.path.dirname(os.path.abspath(__file__)))
sys.path.insert(0, os.path.join(V, "bin"))
from registry import CHECKS
ids = [json.loads(l)["id"] for l in open(os.path.join(V, "properties.jsonl"))]
fixes = subprocess.run(["git", "-C", "/repo", "log", "--format=%h %s", "47686d4..HEAD"], capture_output=True, text=True).stdout.strip().splitlines()
checks = []
for pid in ids:
    if pid not in CHECKS:
        continue
    c = CHECKS[pid]
    checks.append({
        "property_id": pid,
        "quick_cmd": "./check %s quick" % pid,
        "thorough_cmd": "./check %s thorough" % pid,
        "evidence_file": "/verif/evidence/%s.json" % pid,
        "replay_cmd_template": "./check --replay {path}",
        "engine": "mbv-" + (c["bin"] or "multi"),
        "level_claimed": {
            "category": "model_checking",
            "text": "Bounded-exhaustive exploration of the real crates: every input / call history of the stated finite space is enumerated (no sampling) and each library call is compared with a slice-based reference model or monitored (guard pages, two fill patterns, extent containment, panic/crash classification). The verdict is 'no violation in the stated bounds', in the build configurations listed in the evidence. " + c.get("level_text", ""),
            "design_ref": "DESIGN.md section 4, " + pid,
        },
        "level_note": "Trusted base: the harness's own reference model (written from the Multiboot2 layouts in DESIGN Appendix A, sharing no code with the crates), rustc/cargo, Linux mmap/mprotect/signal semantics. " + "; ".join(c.get("assumptions", [])),
        "technique": c["technique"],
    })
na = [{"property_id": i, "reason": "check not yet committed in this session (engine under construction, DESIGN.md section 4); not a limit of the technique"} for i in ids if i not in CHECKS]
m = {
    "version": 1,
    "setup_cmd": "./check --setup",
    "hooks": {
        "guard": "multiboot2_verif",
        "enable": "no hooks: every observation is made through the public API of the three crates (DESIGN.md section 9); the guard name is reserved and unused",
        "baseline_off_cmd": "cd /repo && cargo test --workspace --no-fail-fast --offline",
        "source_commits": [],
        "add_only": True,
    },
    "engines": [
        {"name": "mbvcore", "path": "engine/core", "serves_properties": sorted(CHECKS), "kind_free_text": "repo-independent explorer core: stateless choice-vector enumeration with deviation budgets, sharding, mmap arena with PROT_NONE guard pages, crash/hang capture, transcripts, reference models (spec encoders/decoders)"},
        {"name": "mbv checks", "path": "engine/checks", "serves_properties": sorted(CHECKS), "kind_free_text": "one binary per property linking the real crates (4 build configurations: dev/release x default/no-default features); bin/check.py orchestrates builds, shards, known-findings classification and evidence"},
    ],
    "checks": checks,
    "notes": "fix: commits in /repo (unguarded, one defect each): " + " | ".join(fixes) + ". Known findings and fixed defects are listed in known_findings.txt. ./check --selftest style mutation runs use bin/mutant.sh with the patches under mutants/ and seeded/.",
}
if na:
    m["not_applicable"] = na
else:
    m["not_applicable"] = []
json.dump(m, open(os.path.join(V, "MANIFEST.json"), "w"), indent=1)
print("claimed:", [c["property_id"] for c in checks], "pending:", [x["property_id"] for x in na])
