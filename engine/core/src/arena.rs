//! Page-aligned arena with PROT_NONE guard pages on both sides (DESIGN 2.5).
//!
//! ```text
//! [ guard ][ ............ data pages ............ ][ guard ]
//! ```
use std::sync::atomic::{AtomicUsize, Ordering};

pub const PAGE: usize = 4096;
const MAX_ARENAS: usize = 16;

// Guard ranges, readable from the signal handler.
static GUARDS: [[AtomicUsize; 2]; MAX_ARENAS * 2] = {
    #[allow(clippy::declare_interior_mutable_const)]
    const Z: [AtomicUsize; 2] = [AtomicUsize::new(0), AtomicUsize::new(0)];
    [Z; MAX_ARENAS * 2]
};
static NGUARDS: AtomicUsize = AtomicUsize::new(0);

pub fn addr_in_guard(a: usize) -> bool {
    let n = NGUARDS.load(Ordering::Relaxed);
    for g in GUARDS.iter().take(n) {
        let lo = g[0].load(Ordering::Relaxed);
        let hi = g[1].load(Ordering::Relaxed);
        if a >= lo && a < hi {
            return true;
        }
    }
    false
}

pub struct Arena {
    map: *mut u8,
    data: *mut u8,
    len: usize,
}

unsafe impl Send for Arena {}

impl Arena {
    /// `pages` data pages between two guard areas of 16 pages each (so that
    /// strides of up to 64 KiB past the end still land in a guard).
    pub fn new(pages: usize) -> Arena {
        Self::new_flags(pages, 0)
    }
    /// Like `new`, but mapped below 2 GiB so that its addresses fit 32-bit fields.
    pub fn new_low(pages: usize) -> Arena {
        Self::new_flags(pages, libc::MAP_32BIT)
    }
    /// A very large arena whose pages are only backed when touched.
    pub fn new_sparse(pages: usize) -> Arena {
        Self::new_flags(pages, libc::MAP_NORESERVE)
    }
    /// An arena whose data area ends exactly at the address `end` (a multiple of the page size), e.g. at a multiple
    /// of 4 GiB: addresses are an input dimension too.  `None` when that address range is not free in this process.
    pub fn new_ending_at(pages: usize, end: usize) -> Option<Arena> {
        const G: usize = 16 * PAGE;
        assert_eq!(end % PAGE, 0);
        let want = end - pages * PAGE - G;
        Self::new_at(pages, libc::MAP_FIXED_NOREPLACE, want as *mut libc::c_void)
    }
    fn new_flags(pages: usize, extra: libc::c_int) -> Arena {
        Self::new_at(pages, extra, std::ptr::null_mut()).expect("mmap failed")
    }
    fn new_at(pages: usize, extra: libc::c_int, addr: *mut libc::c_void) -> Option<Arena> {
        const G: usize = 16 * PAGE;
        let len = pages * PAGE;
        let total = len + 2 * G;
        unsafe {
            let map = libc::mmap(
                addr,
                total,
                libc::PROT_NONE,
                libc::MAP_PRIVATE | libc::MAP_ANONYMOUS | extra,
                -1,
                0,
            );
            if map == libc::MAP_FAILED {
                return None;
            }
            if !addr.is_null() && map != addr {
                libc::munmap(map, total);
                return None;
            }
            let map = map as *mut u8;
            let data = map.add(G);
            let r = libc::mprotect(data as *mut _, len, libc::PROT_READ | libc::PROT_WRITE);
            assert_eq!(r, 0, "mprotect failed");
            let i = NGUARDS.load(Ordering::Relaxed);
            assert!(i + 2 <= MAX_ARENAS * 2);
            GUARDS[i][0].store(map as usize, Ordering::Relaxed);
            GUARDS[i][1].store(data as usize, Ordering::Relaxed);
            GUARDS[i + 1][0].store(data as usize + len, Ordering::Relaxed);
            GUARDS[i + 1][1].store(map as usize + total, Ordering::Relaxed);
            NGUARDS.store(i + 2, Ordering::Relaxed);
            Some(Arena { map, data, len })
        }
    }
    pub fn len(&self) -> usize {
        self.len
    }
    pub fn is_empty(&self) -> bool {
        self.len == 0
    }
    pub fn base(&self) -> *mut u8 {
        self.data
    }
    pub fn end(&self) -> *mut u8 {
        unsafe { self.data.add(self.len) }
    }
    /// Fill the whole data area with `b`.
    pub fn fill(&self, b: u8) {
        unsafe { std::ptr::write_bytes(self.data, b, self.len) }
    }
    /// Copy `bytes` so that its last byte is the last byte before the trailing
    /// guard.  Everything else keeps its current contents.
    pub fn place_right(&self, bytes: &[u8]) -> *mut u8 {
        assert!(bytes.len() <= self.len);
        unsafe {
            let p = self.data.add(self.len - bytes.len());
            std::ptr::copy_nonoverlapping(bytes.as_ptr(), p, bytes.len());
            p
        }
    }
    /// Copy `bytes` so that its first byte is the first byte after the leading
    /// guard.
    pub fn place_left(&self, bytes: &[u8]) -> *mut u8 {
        assert!(bytes.len() <= self.len);
        unsafe {
            std::ptr::copy_nonoverlapping(bytes.as_ptr(), self.data, bytes.len());
            self.data
        }
    }
    /// Copy `bytes` to data offset `off`.
    pub fn place_at(&self, off: usize, bytes: &[u8]) -> *mut u8 {
        assert!(off + bytes.len() <= self.len);
        unsafe {
            let p = self.data.add(off);
            std::ptr::copy_nonoverlapping(bytes.as_ptr(), p, bytes.len());
            p
        }
    }
    /// `fill`, then place (right if `right`, else left).
    pub fn put(&self, bytes: &[u8], right: bool, fill: u8) -> *mut u8 {
        self.fill(fill);
        if right {
            self.place_right(bytes)
        } else {
            self.place_left(bytes)
        }
    }
    pub fn contains(&self, addr: usize, n: usize) -> bool {
        addr >= self.data as usize && addr + n <= self.data as usize + self.len
    }
}

impl Drop for Arena {
    fn drop(&mut self) {
        // Arenas live for the whole process; guard table entries are not
        // recycled, so simply leak the mapping.
        let _ = self.map;
    }
}

/// Fill pattern A / B for the non-interference oracle (DESIGN 2.5): non-zero,
/// different, not ASCII letters, A - B odd.
pub const FILL_A: u8 = 0xD5;
pub const FILL_B: u8 = 0x8A;
