//! Stateless depth-first enumeration of all choice vectors of a body
//! (the "odometer" form of the scheme in DESIGN 2.3).  Alternative 0 of every
//! pick is the default; `pick_dev` alternatives > 0 each cost one deviation.

pub struct Chooser {
    script: Vec<u32>,
    pos: usize,
    pub trail: Vec<(u32, u32)>,
    pub budget: u32,
    pub dev_used: u32,
}

impl Chooser {
    pub fn new(script: Vec<u32>, budget: u32) -> Self {
        Chooser { script, pos: 0, trail: Vec::new(), budget, dev_used: 0 }
    }
    /// Choose one of `n` alternatives (n >= 1).
    pub fn pick(&mut self, n: u32) -> u32 {
        assert!(n >= 1);
        let c = if self.pos < self.script.len() {
            let c = self.script[self.pos];
            assert!(c < n, "replayed choice out of range: divergence while replaying a prefix");
            c
        } else {
            0
        };
        self.pos += 1;
        self.trail.push((c, n));
        c
    }
    /// A pick whose non-default alternatives each cost one deviation.
    pub fn pick_dev(&mut self, n: u32) -> u32 {
        let eff = if self.dev_used >= self.budget { 1 } else { n };
        let c = self.pick(eff);
        if c > 0 {
            self.dev_used += 1;
        }
        c
    }
    pub fn pick_from<'a, T>(&mut self, xs: &'a [T]) -> &'a T {
        &xs[self.pick(xs.len() as u32) as usize]
    }
    pub fn choices(&self) -> Vec<u32> {
        self.trail.iter().map(|x| x.0).collect()
    }
}

/// Run `body` once for every choice vector.  Returns the number of leaves.
pub fn enumerate(budget: u32, mut body: impl FnMut(&mut Chooser)) -> u64 {
    let mut script: Vec<u32> = Vec::new();
    let mut n = 0u64;
    loop {
        let mut ch = Chooser::new(script, budget);
        body(&mut ch);
        n += 1;
        let mut t = ch.trail;
        loop {
            match t.pop() {
                None => return n,
                Some((c, k)) => {
                    if c + 1 < k {
                        t.push((c + 1, k));
                        break;
                    }
                }
            }
        }
        script = t.iter().map(|x| x.0).collect();
    }
}

#[cfg(test)]
mod tests {
    use super::*;
    #[test]
    fn counts() {
        let n = enumerate(0, |ch| {
            let a = ch.pick(3);
            if a == 1 {
                ch.pick(2);
            }
            ch.pick(2);
        });
        assert_eq!(n, 2 + 4 + 2);
        // budget 1 over three dev picks of 3 alternatives: 1 + 3*2
        let n = enumerate(1, |ch| {
            ch.pick_dev(3);
            ch.pick_dev(3);
            ch.pick_dev(3);
        });
        assert_eq!(n, 7);
        let n = enumerate(2, |ch| {
            ch.pick_dev(3);
            ch.pick_dev(3);
            ch.pick_dev(3);
        });
        assert_eq!(n, 1 + 6 + 3 * 4);
    }
}
