//! Repo-independent core of the bounded-exhaustive explorer.
//! Nothing in this crate names a type of the crates under test.
pub mod arena;
pub mod chooser;
pub mod crash;
pub mod ctx;
pub mod hash;
pub mod json;
pub mod spec;

pub use arena::Arena;
pub use chooser::{enumerate, Chooser};
pub use ctx::{Ctx, Opts, Out, Tier};
pub use hash::H64;
pub use json::J;

/// RLIMIT_STACK as seen by this process, in KiB (recorded in the evidence).
pub fn stack_limit_kib() -> u64 {
    let mut rl = libc::rlimit { rlim_cur: 0, rlim_max: 0 };
    unsafe { libc::getrlimit(libc::RLIMIT_STACK, &mut rl) };
    rl.rlim_cur / 1024
}
