//! Minimal JSON value + writer (output only).
use std::fmt::Write;

#[derive(Clone, Debug)]
pub enum J {
    Null,
    Bool(bool),
    Int(i128),
    Str(String),
    Arr(Vec<J>),
    Obj(Vec<(String, J)>),
}

impl J {
    pub fn obj() -> J {
        J::Obj(Vec::new())
    }
    pub fn set(mut self, k: &str, v: impl Into<J>) -> J {
        if let J::Obj(ref mut o) = self {
            o.push((k.to_string(), v.into()));
        }
        self
    }
    pub fn put(&mut self, k: &str, v: impl Into<J>) {
        if let J::Obj(ref mut o) = self {
            o.push((k.to_string(), v.into()));
        }
    }
    pub fn hex(b: &[u8]) -> J {
        J::Str(hex(b))
    }
    pub fn write(&self, out: &mut String) {
        match self {
            J::Null => out.push_str("null"),
            J::Bool(b) => out.push_str(if *b { "true" } else { "false" }),
            J::Int(i) => {
                let _ = write!(out, "{}", i);
            }
            J::Str(s) => esc(s, out),
            J::Arr(a) => {
                out.push('[');
                for (i, v) in a.iter().enumerate() {
                    if i > 0 {
                        out.push(',');
                    }
                    v.write(out);
                }
                out.push(']');
            }
            J::Obj(o) => {
                out.push('{');
                for (i, (k, v)) in o.iter().enumerate() {
                    if i > 0 {
                        out.push(',');
                    }
                    esc(k, out);
                    out.push(':');
                    v.write(out);
                }
                out.push('}');
            }
        }
    }
    pub fn to_string(&self) -> String {
        let mut s = String::new();
        self.write(&mut s);
        s
    }
}

pub fn hex(b: &[u8]) -> String {
    let mut s = String::with_capacity(b.len() * 2);
    for x in b {
        let _ = write!(s, "{:02x}", x);
    }
    s
}

fn esc(s: &str, out: &mut String) {
    out.push('"');
    for c in s.chars() {
        match c {
            '"' => out.push_str("\\\""),
            '\\' => out.push_str("\\\\"),
            '\n' => out.push_str("\\n"),
            '\r' => out.push_str("\\r"),
            '\t' => out.push_str("\\t"),
            c if (c as u32) < 0x20 => {
                let _ = write!(out, "\\u{:04x}", c as u32);
            }
            c => out.push(c),
        }
    }
    out.push('"');
}

impl From<bool> for J {
    fn from(v: bool) -> J {
        J::Bool(v)
    }
}
impl From<&str> for J {
    fn from(v: &str) -> J {
        J::Str(v.to_string())
    }
}
impl From<String> for J {
    fn from(v: String) -> J {
        J::Str(v)
    }
}
impl From<Vec<J>> for J {
    fn from(v: Vec<J>) -> J {
        J::Arr(v)
    }
}
macro_rules! jint {
    ($($t:ty),*) => { $(impl From<$t> for J { fn from(v: $t) -> J { J::Int(v as i128) } })* };
}
jint!(u8, u16, u32, u64, usize, i8, i16, i32, i64, isize);
