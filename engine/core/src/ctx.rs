//! Shard / leaf management, counters, violation aggregation, result file.
use crate::crash;
use crate::hash::H64;
use crate::json::J;
use std::collections::{BTreeMap, HashSet};
use std::io::Write;
use std::panic::{catch_unwind, AssertUnwindSafe};

#[derive(Clone, Copy, PartialEq, Eq, Debug)]
pub enum Tier {
    Quick,
    Thorough,
}

#[derive(Clone, Debug)]
pub struct Opts {
    pub prop: String,
    pub cfg: String,
    pub tier: Tier,
    pub shard: u64,
    pub nshards: u64,
    pub skip: Vec<u64>,
    pub only: Option<u64>,
    pub describe: Option<u64>,
    pub probe: bool,
    pub verbose: bool,
    pub out: String,
    pub hang_secs: u64,
    pub extra: Vec<(String, String)>,
}

impl Opts {
    pub fn from_args(prop: &str) -> Opts {
        let mut o = Opts {
            prop: prop.to_string(),
            cfg: "?".into(),
            tier: Tier::Quick,
            shard: 0,
            nshards: 1,
            skip: vec![],
            only: None,
            describe: None,
            probe: false,
            verbose: false,
            out: ".".into(),
            hang_secs: 60,
            extra: vec![],
        };
        let a: Vec<String> = std::env::args().collect();
        let mut i = 1;
        while i < a.len() {
            let v = |i: usize| a.get(i + 1).cloned().unwrap_or_else(|| panic!("missing value for {}", a[i]));
            match a[i].as_str() {
                "--tier" => {
                    o.tier = if v(i) == "thorough" { Tier::Thorough } else { Tier::Quick };
                    i += 1
                }
                "--cfg" => {
                    o.cfg = v(i);
                    i += 1
                }
                "--shard" => {
                    o.shard = v(i).parse().unwrap();
                    i += 1
                }
                "--nshards" => {
                    o.nshards = v(i).parse().unwrap();
                    i += 1
                }
                "--skip" => {
                    o.skip = v(i).split(',').filter(|s| !s.is_empty()).map(|s| s.parse().unwrap()).collect();
                    i += 1
                }
                "--only" => {
                    o.only = Some(v(i).parse().unwrap());
                    i += 1
                }
                "--describe" => {
                    o.describe = Some(v(i).parse().unwrap());
                    i += 1
                }
                "--out" => {
                    o.out = v(i);
                    i += 1
                }
                "--hang-secs" => {
                    o.hang_secs = v(i).parse().unwrap();
                    i += 1
                }
                "--probe" => o.probe = true,
                "--verbose" => o.verbose = true,
                x if x.starts_with("--x-") => {
                    o.extra.push((x[4..].to_string(), v(i)));
                    i += 1
                }
                x => panic!("unknown argument {}", x),
            }
            i += 1;
        }
        o
    }
    pub fn extra(&self, k: &str) -> Option<&str> {
        self.extra.iter().find(|x| x.0 == k).map(|x| x.1.as_str())
    }
}

/// Outcome class of one library call (O2).
#[derive(Debug, Clone, PartialEq, Eq)]
pub enum Out<T> {
    Val(T),
    Panic,
}

impl<T> Out<T> {
    pub fn is_panic(&self) -> bool {
        matches!(self, Out::Panic)
    }
    pub fn val(self) -> Option<T> {
        match self {
            Out::Val(v) => Some(v),
            Out::Panic => None,
        }
    }
    pub fn as_ref(&self) -> Out<&T> {
        match self {
            Out::Val(v) => Out::Val(v),
            Out::Panic => Out::Panic,
        }
    }
}

thread_local! {
    pub static LAST_PANIC: std::cell::RefCell<String> = const { std::cell::RefCell::new(String::new()) };
}

/// Violation texts stay readable (and replay files small) when an input is megabytes long.
fn clip(m: String) -> String {
    const MAX: usize = 1600;
    if m.len() <= MAX {
        return m;
    }
    let mut cut = 1200;
    while !m.is_char_boundary(cut) {
        cut -= 1;
    }
    let mut tail = m.len() - 300;
    while !m.is_char_boundary(tail) {
        tail += 1;
    }
    format!("{} ...[{} bytes left out]... {}", &m[..cut], tail - cut, &m[tail..])
}

/// Message of the most recent panic on this thread (harness diagnostics).
pub fn last_panic() -> String {
    LAST_PANIC.with(|p| p.borrow().clone())
}

struct VioAgg {
    count: u64,
    examples: Vec<(u64, String)>,
}

pub struct Ctx {
    pub opts: Opts,
    uniform_mode: bool,
    next_leaf: u64,
    cur_leaf: u64,
    pub executed: u64,
    pub transitions: u64,
    pub traces_ok: u64,
    viol_total: u64,
    states: HashSet<u64>,
    states_direct: u64,
    nontrivial: u64,
    classes: BTreeMap<&'static str, u64>,
    violations: BTreeMap<String, VioAgg>,
    samples: Vec<J>,
    bounds: Vec<(String, String)>,
    probes: Vec<(String, u64)>,
    digests: Option<std::io::BufWriter<std::fs::File>>,
    /// transcript hash of the current leaf
    pub tx: H64,
    shadow: bool,
    start: std::time::Instant,
    det_checked: u64,
    pub det_limit: u64,
    leaf_nontrivial: bool,
}

impl Ctx {
    pub fn new(opts: Opts) -> Ctx {
        std::panic::set_hook(Box::new(|info| {
            let s = format!("{}", info);
            LAST_PANIC.with(|p| *p.borrow_mut() = s);
        }));
        if opts.describe.is_none() {
            let path = format!("{}/crash.{}.txt", opts.out, opts.shard);
            let c = std::ffi::CString::new(path).unwrap();
            let fd = unsafe { libc::open(c.as_ptr(), libc::O_WRONLY | libc::O_CREAT | libc::O_APPEND, 0o644) };
            assert!(fd >= 0, "cannot open crash file");
            crash::install(fd, opts.hang_secs);
        }
        let uniform_mode = opts.extra("uniform").is_some();
        Ctx {
            opts,
            uniform_mode,
            next_leaf: 0,
            cur_leaf: 0,
            executed: 0,
            transitions: 0,
            traces_ok: 0,
            viol_total: 0,
            states: HashSet::new(),
            states_direct: 0,
            nontrivial: 0,
            classes: BTreeMap::new(),
            violations: BTreeMap::new(),
            samples: Vec::new(),
            bounds: Vec::new(),
            probes: Vec::new(),
            digests: None,
            tx: H64::new(),
            shadow: false,
            start: std::time::Instant::now(),
            det_checked: 0,
            det_limit: 200,
            leaf_nontrivial: false,
        }
    }
    /// A context without crash-file / hook side effects, for nested use.
    pub fn new_secondary(opts: Opts) -> Ctx {
        let uniform_mode = opts.extra("uniform").is_some();
        let mut c = Ctx {
            opts,
            uniform_mode,
            next_leaf: 0,
            cur_leaf: 0,
            executed: 0,
            transitions: 0,
            traces_ok: 0,
            viol_total: 0,
            states: HashSet::new(),
            states_direct: 0,
            nontrivial: 0,
            classes: BTreeMap::new(),
            violations: BTreeMap::new(),
            samples: Vec::new(),
            bounds: Vec::new(),
            probes: Vec::new(),
            digests: None,
            tx: H64::new(),
            shadow: true,
            start: std::time::Instant::now(),
            det_checked: 0,
            det_limit: 0,
            leaf_nontrivial: false,
        };
        c.opts.verbose = false;
        c
    }
    pub fn tier(&self) -> Tier {
        self.opts.tier
    }
    pub fn quick(&self) -> bool {
        self.opts.tier == Tier::Quick
    }
    /// True in the dev-profile configurations - and in every configuration of a
    /// cross-configuration run (C08), where all four builds must enumerate the
    /// same (dev-sized) space.
    pub fn dev_profile(&self) -> bool {
        self.opts.cfg.starts_with('d') || self.uniform()
    }
    /// Cross-configuration mode: spaces and transcripts must not depend on the
    /// build configuration or on addresses.
    pub fn uniform(&self) -> bool {
        self.opts.extra("uniform").is_some()
    }
    pub fn verbose(&self) -> bool {
        self.opts.verbose
    }
    /// Record a bound / alphabet description for the evidence file.
    pub fn bound(&mut self, k: &str, v: impl Into<String>) {
        if !self.bounds.iter().any(|b| b.0 == k) {
            self.bounds.push((k.to_string(), v.into()));
        }
    }
    /// Stream one 64-bit digest per executed leaf (C08).
    pub fn enable_digests(&mut self) {
        if self.opts.describe.is_some() || self.opts.only.is_some() {
            return;
        }
        let p = format!("{}/digests.{}.bin", self.opts.out, self.opts.shard);
        self.digests = Some(std::io::BufWriter::new(std::fs::File::create(p).unwrap()));
    }

    fn selected(&mut self, idx: u64) -> bool {
        if let Some(o) = self.opts.only {
            return idx == o;
        }
        if idx % self.opts.nshards != self.opts.shard {
            return false;
        }
        if !self.opts.skip.is_empty() && self.opts.skip.contains(&idx) {
            return false;
        }
        true
    }

    /// One leaf of the exploration: `describe` renders the case (input,
    /// program) for evidence / replay, `exec` runs it against the library.
    pub fn leaf(&mut self, describe: impl Fn() -> J, exec: impl Fn(&mut Ctx)) {
        let idx = self.next_leaf;
        self.next_leaf += 1;
        if let Some(d) = self.opts.describe {
            if idx == d {
                println!("{}", describe().to_string());
                std::process::exit(0);
            }
            return;
        }
        if self.opts.probe || !self.selected(idx) {
            return;
        }
        self.run_leaf(idx, &describe, &exec);
    }

    fn run_leaf(&mut self, idx: u64, describe: &dyn Fn() -> J, exec: &dyn Fn(&mut Ctx)) {
        crash::set_leaf(idx);
        crash::set_call("-");
        self.cur_leaf = idx;
        let before = self.viol_total;
        self.tx = H64::new();
        self.leaf_nontrivial = false;
        if self.opts.verbose {
            println!("LEAF {} {}", idx, describe().to_string());
        }
        exec(self);
        let tx1 = self.tx;
        self.executed += 1;
        if self.leaf_nontrivial {
            self.nontrivial += 1;
        }
        if self.viol_total == before {
            self.traces_ok += 1;
        }
        if let Some(w) = self.digests.as_mut() {
            let _ = w.write_all(&idx.to_le_bytes());
            let _ = w.write_all(&tx1.get().to_le_bytes());
        }
        // (a leaf that already raised a violation keeps its verdict: a library that hands out
        // uninitialised memory is nondeterministic by itself and must not be reported as a
        // machinery error)
        if self.det_checked < self.det_limit && self.viol_total == before {
            // determinism discipline: same leaf twice, identical transcript
            self.det_checked += 1;
            self.shadow = true;
            self.tx = H64::new();
            exec(self);
            self.shadow = false;
            if self.tx != tx1 {
                eprintln!("MACHINERY nondeterministic transcript at leaf {}", idx);
                std::process::exit(2);
            }
        }
        let n = self.executed;
        if n <= 2 || (n.is_power_of_two() && self.samples.len() < 12) {
            let mut d = describe();
            d.put("leaf", idx);
            d.put("transcript_digest", format!("{:016x}", tx1.get()));
            self.samples.push(d);
        }
    }

    /// A leaf that is expected to crash the process on the unchanged tree
    /// (listed known finding).  Never executed inside a shard; the
    /// orchestrator runs it alone in a child with `--only <idx> --probe`.
    pub fn probe(&mut self, key: &str, describe: impl Fn() -> J, exec: impl Fn(&mut Ctx)) {
        let idx = self.next_leaf;
        self.next_leaf += 1;
        if let Some(d) = self.opts.describe {
            if idx == d {
                println!("{}", describe().to_string());
                std::process::exit(0);
            }
            return;
        }
        if self.opts.probe {
            if self.opts.only == Some(idx) {
                self.det_limit = 0;
                self.run_leaf(idx, &describe, &exec);
            }
            return;
        }
        if self.opts.only.is_none() && idx % self.opts.nshards == self.opts.shard {
            self.probes.push((key.to_string(), idx));
        }
    }

    /// Run one library call under catch_unwind; counts one transition.
    #[inline]
    pub fn call<T>(&mut self, name: &'static str, f: impl FnOnce() -> T) -> Out<T> {
        crash::set_call(name);
        if !self.shadow {
            self.transitions += 1;
        }
        // the outcome class of every call is part of the transcript (fills A/B, determinism, C08) - except, in
        // cross-configuration runs, for the calls C08's scope leaves out (DESIGN 6): Debug formatting and the derived
        // arithmetic accessors, whose overflow behaviour is Rust's ordinary profile-dependent one
        let record = !(self.uniform_mode && (name.starts_with("Debug") || matches!(name, "module_size" | "area.end_address" | "section.end_address")));
        match catch_unwind(AssertUnwindSafe(f)) {
            Ok(v) => {
                if record {
                    self.tx.str(name);
                    self.tx.u64(0);
                }
                Out::Val(v)
            }
            Err(_) => {
                if record {
                    self.tx.str(name);
                    self.tx.u64(1);
                }
                if self.opts.verbose {
                    LAST_PANIC.with(|p| println!("  panic in {}: {}", name, p.borrow()));
                    println!("  {} = panicked", name);
                }
                Out::Panic
            }
        }
    }

    /// Count an outcome class (vacuity guard histogram).
    #[inline]
    pub fn class(&mut self, name: &'static str) {
        if !self.shadow {
            *self.classes.entry(name).or_insert(0) += 1;
        }
    }
    /// Mark the current leaf as non-trivial by the check's stated rule.
    #[inline]
    pub fn nontrivial(&mut self) {
        self.leaf_nontrivial = true;
    }
    /// Record a distinct state by hash.
    #[inline]
    pub fn state(&mut self, h: u64) {
        if !self.shadow {
            self.states.insert(h);
        }
    }
    /// Record a state known to be distinct by construction of the generator.
    #[inline]
    pub fn state_direct(&mut self) {
        if !self.shadow {
            self.states_direct += 1;
        }
    }
    /// Feed an observation into the transcript of the current leaf.
    #[inline]
    pub fn ob(&mut self, label: &'static str, v: u64) {
        // the label is part of the transcript: "panic = 1" and "error = 1" must not collide
        self.tx.str(label);
        self.tx.u64(v);
        if self.opts.verbose && !self.shadow {
            println!("  {} = {:#x}", label, v);
        }
    }
    #[inline]
    pub fn ob_bytes(&mut self, label: &'static str, b: &[u8]) {
        self.tx.str(label);
        self.tx.bytes(b);
        if self.opts.verbose && !self.shadow {
            println!("  {} = [{}] {}", label, b.len(), crate::json::hex(&b[..b.len().min(64)]));
        }
    }
    #[inline]
    pub fn ob_str(&mut self, label: &'static str, s: &str) {
        self.tx.str(label);
        self.tx.str(s);
        if self.opts.verbose && !self.shadow {
            println!("  {} = {:?}", label, s);
        }
    }

    pub fn violation(&mut self, key: &str, msg: impl FnOnce() -> String) {
        if self.shadow {
            return;
        }
        self.viol_total += 1;
        let leaf = self.cur_leaf;
        let e = self.violations.entry(key.to_string()).or_insert(VioAgg { count: 0, examples: vec![] });
        e.count += 1;
        if e.examples.len() < 3 {
            let m = clip(msg());
            if self.opts.verbose {
                println!("  VIOLATION {} : {}", key, m);
            }
            e.examples.push((leaf, m));
        } else if self.opts.verbose {
            println!("  VIOLATION {} : {}", key, clip(msg()));
        }
    }
    /// O5 non-interference: run `f` once per fill pattern; the transcripts
    /// (everything fed through `ob*`) must be identical.
    pub fn under_fills(&mut self, key: &str, f: impl Fn(&mut Ctx, u8)) {
        let t0 = self.tx;
        f(self, crate::arena::FILL_A);
        let ta = self.tx;
        self.tx = t0;
        f(self, crate::arena::FILL_B);
        if self.tx != ta {
            self.violation(key, || "outcome depends on bytes outside the permitted extent (differs between fill patterns A and B)".into());
        }
    }
    /// Run `f` under `k` variants of the memory outside the permitted extent; the transcript must be the same in all.
    pub fn under_variants(&mut self, key: &str, k: usize, f: impl Fn(&mut Ctx, usize)) {
        let t0 = self.tx;
        f(self, 0);
        let ta = self.tx;
        for i in 1..k {
            self.tx = t0;
            f(self, i);
            if self.tx != ta {
                self.violation(key, || format!("outcome depends on bytes outside the permitted extent (differs between variant 0 and variant {} of the surrounding memory)", i));
            }
        }
    }
    /// A finding about the harness's own assumptions: never a verdict (exit 2).
    pub fn machinery(&mut self, msg: &str) {
        if self.shadow {
            return;
        }
        eprintln!("MACHINERY {} (leaf {})", msg, self.cur_leaf);
        std::process::exit(2);
    }
    pub fn violations_so_far(&self) -> u64 {
        self.viol_total
    }

    /// Write the shard result.  `complete` = the enumeration ran to its end.
    pub fn finish(mut self) {
        crash::set_done();
        if self.opts.describe.is_some() {
            eprintln!("leaf index out of range (space has {} leaves)", self.next_leaf);
            std::process::exit(3);
        }
        if let Some(mut w) = self.digests.take() {
            let _ = w.flush();
        }
        let mut states: Vec<u64> = self.states.iter().copied().collect();
        states.sort_unstable();
        if self.opts.only.is_none() {
            let p = format!("{}/states.{}.bin", self.opts.out, self.opts.shard);
            let mut f = std::io::BufWriter::new(std::fs::File::create(p).unwrap());
            for s in &states {
                let _ = f.write_all(&s.to_le_bytes());
            }
            let _ = f.flush();
        }
        let mut v = Vec::new();
        for (k, a) in &self.violations {
            let ex: Vec<J> = a
                .examples
                .iter()
                .map(|(l, m)| J::obj().set("leaf", *l).set("msg", m.as_str()))
                .collect();
            v.push(J::obj().set("key", k.as_str()).set("count", a.count).set("examples", ex));
        }
        let classes = J::Obj(self.classes.iter().map(|(k, n)| (k.to_string(), J::from(*n))).collect());
        let bounds = J::Obj(self.bounds.iter().map(|(k, n)| (k.clone(), J::from(n.as_str()))).collect());
        let probes: Vec<J> = self.probes.iter().map(|(k, i)| J::obj().set("key", k.as_str()).set("leaf", *i)).collect();
        let r = J::obj()
            .set("prop", self.opts.prop.as_str())
            .set("cfg", self.opts.cfg.as_str())
            .set("shard", self.opts.shard)
            .set("nshards", self.opts.nshards)
            .set("complete", true)
            .set("leaves_in_space", self.next_leaf)
            .set("executed", self.executed)
            .set("transitions", self.transitions)
            .set("traces_ok", self.traces_ok)
            .set("nontrivial", self.nontrivial)
            .set("states_hashed", states.len())
            .set("states_direct", self.states_direct)
            .set("det_checked", self.det_checked)
            .set("classes", classes)
            .set("bounds", bounds)
            .set("violations", v)
            .set("probes", probes)
            .set("samples", std::mem::take(&mut self.samples))
            .set("wall_ms", self.start.elapsed().as_millis() as u64);
        if self.opts.only.is_some() {
            println!("RESULT {}", r.to_string());
        } else {
            let p = format!("{}/result.{}.json", self.opts.out, self.opts.shard);
            std::fs::write(p, r.to_string()).unwrap();
        }
    }
}

/// Count distinct u64 values over several sorted `states.*.bin` files.
pub fn merge_states(files: &[String]) -> u64 {
    let mut all: Vec<u64> = Vec::new();
    for f in files {
        if let Ok(b) = std::fs::read(f) {
            for c in b.chunks_exact(8) {
                all.push(u64::from_le_bytes([c[0], c[1], c[2], c[3], c[4], c[5], c[6], c[7]]));
            }
        }
    }
    all.sort_unstable();
    all.dedup();
    all.len() as u64
}
