//! Small non-cryptographic 64-bit hasher used for state counting and
//! transcript digests.  Deterministic across runs, builds and profiles.

#[derive(Clone, Copy, Debug, PartialEq, Eq)]
pub struct H64(pub u64);

impl Default for H64 {
    fn default() -> Self {
        Self::new()
    }
}

impl H64 {
    pub const fn new() -> Self {
        H64(0x9AE1_6A3B_2F90_404F)
    }
    pub const fn seeded(s: u64) -> Self {
        H64(0x9AE1_6A3B_2F90_404F ^ s.wrapping_mul(0xD6E8_FEB8_6659_FD93))
    }
    #[inline]
    pub fn u64(&mut self, x: u64) {
        let mut h = (self.0 ^ x).wrapping_mul(0x9E37_79B9_7F4A_7C15);
        h ^= h >> 29;
        h = h.wrapping_mul(0xBF58_476D_1CE4_E5B9);
        h ^= h >> 32;
        self.0 = h;
    }
    #[inline]
    pub fn bytes(&mut self, b: &[u8]) {
        self.u64(b.len() as u64 ^ 0xA5A5_0000_0000_0000);
        let mut it = b.chunks_exact(8);
        for c in &mut it {
            self.u64(u64::from_le_bytes([c[0], c[1], c[2], c[3], c[4], c[5], c[6], c[7]]));
        }
        let r = it.remainder();
        if !r.is_empty() {
            let mut t = [0u8; 8];
            t[..r.len()].copy_from_slice(r);
            self.u64(u64::from_le_bytes(t) ^ ((r.len() as u64) << 56));
        }
    }
    #[inline]
    pub fn str(&mut self, s: &str) {
        self.bytes(s.as_bytes())
    }
    #[inline]
    pub fn get(&self) -> u64 {
        self.0
    }
}

pub fn hash_bytes(b: &[u8]) -> u64 {
    let mut h = H64::new();
    h.bytes(b);
    h.get()
}
