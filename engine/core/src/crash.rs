//! Crash and hang capture (DESIGN 2.8).  A fatal signal writes one line
//! `CRASH sig=<n> addr=<hex> guard=<0|1> leaf=<idx> call=<name>` to the crash
//! file of the shard and `_exit(99)`s.  A watchdog thread turns a leaf that
//! does not finish within the limit into `HANG leaf=<idx> call=<name>` and
//! `_exit(98)`.
use crate::arena::addr_in_guard;
use std::sync::atomic::{AtomicBool, AtomicI32, AtomicPtr, AtomicU64, AtomicUsize, Ordering};

static LEAF: AtomicU64 = AtomicU64::new(u64::MAX);
static TICK: AtomicU64 = AtomicU64::new(0);
static CALL_PTR: AtomicPtr<u8> = AtomicPtr::new(std::ptr::null_mut());
static CALL_LEN: AtomicUsize = AtomicUsize::new(0);
static FD: AtomicI32 = AtomicI32::new(2);
static DONE: AtomicBool = AtomicBool::new(false);

#[inline]
pub fn set_leaf(idx: u64) {
    LEAF.store(idx, Ordering::Relaxed);
    TICK.fetch_add(1, Ordering::Relaxed);
}
#[inline]
pub fn set_call(name: &'static str) {
    CALL_PTR.store(name.as_ptr() as *mut u8, Ordering::Relaxed);
    CALL_LEN.store(name.len(), Ordering::Relaxed);
}
pub fn tick() {
    TICK.fetch_add(1, Ordering::Relaxed);
}
pub fn set_done() {
    DONE.store(true, Ordering::Relaxed);
}

struct Buf {
    b: [u8; 256],
    n: usize,
}
impl Buf {
    fn s(&mut self, s: &[u8]) {
        for &c in s {
            if self.n < self.b.len() {
                self.b[self.n] = c;
                self.n += 1;
            }
        }
    }
    fn dec(&mut self, mut v: u64) {
        let mut t = [0u8; 20];
        let mut i = 20;
        if v == 0 {
            i -= 1;
            t[i] = b'0';
        }
        while v > 0 {
            i -= 1;
            t[i] = b'0' + (v % 10) as u8;
            v /= 10;
        }
        let (a, _) = (i, 0);
        let tmp = t;
        self.s(&tmp[a..]);
    }
    fn hex(&mut self, v: u64) {
        self.s(b"0x");
        let mut started = false;
        for i in (0..16).rev() {
            let d = ((v >> (i * 4)) & 15) as u8;
            if d != 0 || started || i == 0 {
                started = true;
                self.s(&[if d < 10 { b'0' + d } else { b'a' + d - 10 }]);
            }
        }
    }
    fn call(&mut self) {
        let p = CALL_PTR.load(Ordering::Relaxed);
        let n = CALL_LEN.load(Ordering::Relaxed);
        if !p.is_null() {
            let s = unsafe { std::slice::from_raw_parts(p, n) };
            self.s(s);
        } else {
            self.s(b"-");
        }
    }
}

extern "C" fn handler(sig: libc::c_int, info: *mut libc::siginfo_t, _ctx: *mut libc::c_void) {
    let addr = unsafe { (*info).si_addr() as usize };
    let mut b = Buf { b: [0; 256], n: 0 };
    b.s(b"CRASH sig=");
    b.dec(sig as u64);
    b.s(b" addr=");
    b.hex(addr as u64);
    b.s(b" guard=");
    b.dec(if (sig == libc::SIGSEGV || sig == libc::SIGBUS) && addr_in_guard(addr) { 1 } else { 0 });
    b.s(b" leaf=");
    b.dec(LEAF.load(Ordering::Relaxed));
    b.s(b" call=");
    b.call();
    b.s(b"\n");
    unsafe {
        libc::write(FD.load(Ordering::Relaxed), b.b.as_ptr() as *const _, b.n);
        libc::_exit(99);
    }
}

/// Install handlers; crash lines go to file descriptor `fd`.
pub fn install(fd: i32, hang_secs: u64) {
    FD.store(fd, Ordering::Relaxed);
    unsafe {
        const SZ: usize = 1 << 16;
        let stack = libc::mmap(
            std::ptr::null_mut(),
            SZ,
            libc::PROT_READ | libc::PROT_WRITE,
            libc::MAP_PRIVATE | libc::MAP_ANONYMOUS,
            -1,
            0,
        );
        assert!(stack != libc::MAP_FAILED);
        let ss = libc::stack_t { ss_sp: stack, ss_flags: 0, ss_size: SZ };
        assert_eq!(libc::sigaltstack(&ss, std::ptr::null_mut()), 0);
        for sig in [libc::SIGSEGV, libc::SIGBUS, libc::SIGABRT, libc::SIGILL, libc::SIGFPE] {
            let mut sa: libc::sigaction = std::mem::zeroed();
            sa.sa_sigaction = handler as usize;
            sa.sa_flags = libc::SA_SIGINFO | libc::SA_ONSTACK | libc::SA_NODEFER;
            libc::sigemptyset(&mut sa.sa_mask);
            assert_eq!(libc::sigaction(sig, &sa, std::ptr::null_mut()), 0);
        }
    }
    if hang_secs > 0 {
        std::thread::spawn(move || {
            let mut last = TICK.load(Ordering::Relaxed);
            let mut since = std::time::Instant::now();
            loop {
                std::thread::sleep(std::time::Duration::from_millis(250));
                if DONE.load(Ordering::Relaxed) {
                    return;
                }
                let t = TICK.load(Ordering::Relaxed);
                if t != last {
                    last = t;
                    since = std::time::Instant::now();
                } else if since.elapsed().as_secs() >= hang_secs {
                    let mut b = Buf { b: [0; 256], n: 0 };
                    b.s(b"HANG leaf=");
                    b.dec(LEAF.load(Ordering::Relaxed));
                    b.s(b" call=");
                    b.call();
                    b.s(b"\n");
                    unsafe {
                        libc::write(FD.load(Ordering::Relaxed), b.b.as_ptr() as *const _, b.n);
                        libc::_exit(98);
                    }
                }
            }
        });
    }
}
