//! Reference models: slice-based encoders / decoders written from the
//! Multiboot2 specification (DESIGN 2.7, Appendix A).  Filled in per check.

#[inline]
pub fn rd16(b: &[u8], o: usize) -> u16 {
    u16::from_le_bytes([b[o], b[o + 1]])
}
#[inline]
pub fn rd32(b: &[u8], o: usize) -> u32 {
    u32::from_le_bytes([b[o], b[o + 1], b[o + 2], b[o + 3]])
}
#[inline]
pub fn rd64(b: &[u8], o: usize) -> u64 {
    let mut t = [0u8; 8];
    t.copy_from_slice(&b[o..o + 8]);
    u64::from_le_bytes(t)
}
#[inline]
pub fn wr16(b: &mut [u8], o: usize, v: u16) {
    b[o..o + 2].copy_from_slice(&v.to_le_bytes());
}
#[inline]
pub fn wr32(b: &mut [u8], o: usize, v: u32) {
    b[o..o + 4].copy_from_slice(&v.to_le_bytes());
}
#[inline]
pub fn wr64(b: &mut [u8], o: usize, v: u64) {
    b[o..o + 8].copy_from_slice(&v.to_le_bytes());
}
#[inline]
pub const fn round8(x: usize) -> usize {
    (x + 7) & !7
}

/// Marker byte for body position `i` (DESIGN 3): non-zero, non-ASCII,
/// neighbours differ.
#[inline]
pub fn marker(i: usize, salt: usize) -> u8 {
    0x80 | (((37 * i + 11 + 53 * salt) & 0x7F) as u8)
}

pub const EDGE32: [u32; 16] = [
    0, 1, 2, 3, 4, 7, 8, 9, 15, 16, 17, 0x7FFF_FFFF, 0x8000_0000, 0xFFFF_FFF7, 0xFFFF_FFF8, 0xFFFF_FFFF,
];

/// One step of the specification's tag walk over a payload (the bytes after
/// the 8-byte boot-information header).
#[derive(Clone, Copy, Debug, PartialEq, Eq)]
pub struct WalkItem {
    pub off: usize,
    pub typ: u32,
    pub size: usize,
}

/// The spec-following walk: first tag at offset 0 of the payload, each next
/// one at the previous offset plus its size rounded up to 8, until the end of
/// the payload.  Returns the items and whether the walk must be refused after
/// them (size below 8, or a tag that would leave the payload).
pub fn walk(payload: &[u8]) -> (Vec<WalkItem>, bool) {
    let mut items = Vec::new();
    let mut off = 0usize;
    let len = payload.len();
    while off < len {
        if off + 8 > len {
            return (items, true);
        }
        let typ = rd32(payload, off);
        let size = rd32(payload, off + 4) as usize;
        if size < 8 {
            return (items, true);
        }
        let next = off as u64 + ((size as u64 + 7) & !7);
        if next > len as u64 {
            return (items, true);
        }
        items.push(WalkItem { off, typ, size });
        off = next as usize;
    }
    (items, false)
}

/// Header-crate walk: tags have a 16-bit type, 16-bit flags and 32-bit size.
#[derive(Clone, Copy, Debug, PartialEq, Eq)]
pub struct HWalkItem {
    pub off: usize,
    pub typ: u16,
    pub flags: u16,
    pub size: usize,
}
pub fn hwalk(payload: &[u8]) -> (Vec<HWalkItem>, bool) {
    let mut items = Vec::new();
    let mut off = 0usize;
    let len = payload.len();
    while off < len {
        if off + 8 > len {
            return (items, true);
        }
        let typ = rd16(payload, off);
        let flags = rd16(payload, off + 2);
        let size = rd32(payload, off + 4) as usize;
        if size < 8 {
            return (items, true);
        }
        let next = off as u64 + ((size as u64 + 7) & !7);
        if next > len as u64 {
            return (items, true);
        }
        items.push(HWalkItem { off, typ, flags, size });
        off = next as usize;
    }
    (items, false)
}
