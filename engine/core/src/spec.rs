//! Reference models: slice-based encoders / decoders written from the
//! Multiboot2 specification (DESIGN 2.7, Appendix A).  Filled in per check.

#[inline]
pub fn rd16(b: &[u8], o: usize) -> u16 {
    u16::from_le_bytes([b[o], b[o + 1]])
}
#[inline]
pub fn rd32(b: &[u8], o: usize) -> u32 {
    u32::from_le_bytes([b[o], b[o + 1], b[o + 2], b[o + 3]])
}
#[inline]
pub fn rd64(b: &[u8], o: usize) -> u64 {
    let mut t = [0u8; 8];
    t.copy_from_slice(&b[o..o + 8]);
    u64::from_le_bytes(t)
}
#[inline]
pub fn wr16(b: &mut [u8], o: usize, v: u16) {
    b[o..o + 2].copy_from_slice(&v.to_le_bytes());
}
#[inline]
pub fn wr32(b: &mut [u8], o: usize, v: u32) {
    b[o..o + 4].copy_from_slice(&v.to_le_bytes());
}
#[inline]
pub fn wr64(b: &mut [u8], o: usize, v: u64) {
    b[o..o + 8].copy_from_slice(&v.to_le_bytes());
}
#[inline]
pub const fn round8(x: usize) -> usize {
    (x + 7) & !7
}

/// Marker byte for body position `i` (DESIGN 3): non-zero, non-ASCII,
/// neighbours differ.
#[inline]
pub fn marker(i: usize, salt: usize) -> u8 {
    0x80 | (((37 * i + 11 + 53 * salt) & 0x7F) as u8)
}

pub const EDGE32: [u32; 36] = [
    0, 1, 2, 3, 4, 7, 8, 9, 15, 16, 17, 0xFF, 0x100, 0xFFFE, 0xFFFF, 0x1_0000, 0x1_0001, 0x00FF_FFFF, 0x0100_0000, 0x7FFF_FFFF,
    0x8000_0000, 0xFFFF_FFF7, 0xFFFF_FFF8, 0xFFFF_FFFF,
    // the two magic numbers of the specification (header magic, boot-loader magic): values a "diagnostic" special
    // case would be keyed on
    0xE852_50D6, 0x36D7_6289,
    // sign bits of the narrower integer types, and the two alternating bit patterns
    0x7F, 0x80, 0x7FFF, 0x8000, 0x5555_5555, 0xAAAA_AAAA,
    // memory-fill patterns (freed / uninitialised / poisoned memory as firmware and allocators leave it)
    0xAFAF_AFAF, 0xCCCC_CCCC, 0xCDCD_CDCD, 0xDEAD_BEEF,
];

/// One step of the specification's tag walk over a payload (the bytes after
/// the 8-byte boot-information header).
#[derive(Clone, Copy, Debug, PartialEq, Eq)]
pub struct WalkItem {
    pub off: usize,
    pub typ: u32,
    pub size: usize,
}

/// The spec-following walk: first tag at offset 0 of the payload, each next
/// one at the previous offset plus its size rounded up to 8, until the end of
/// the payload.  Returns the items and whether the walk must be refused after
/// them (size below 8, or a tag that would leave the payload).
pub fn walk(payload: &[u8]) -> (Vec<WalkItem>, bool) {
    let mut items = Vec::new();
    let mut off = 0usize;
    let len = payload.len();
    while off < len {
        if off + 8 > len {
            return (items, true);
        }
        let typ = rd32(payload, off);
        let size = rd32(payload, off + 4) as usize;
        if size < 8 {
            return (items, true);
        }
        let next = off as u64 + ((size as u64 + 7) & !7);
        if next > len as u64 {
            return (items, true);
        }
        items.push(WalkItem { off, typ, size });
        off = next as usize;
    }
    (items, false)
}

/// Header-crate walk: tags have a 16-bit type, 16-bit flags and 32-bit size.
#[derive(Clone, Copy, Debug, PartialEq, Eq)]
pub struct HWalkItem {
    pub off: usize,
    pub typ: u16,
    pub flags: u16,
    pub size: usize,
}
pub fn hwalk(payload: &[u8]) -> (Vec<HWalkItem>, bool) {
    let mut items = Vec::new();
    let mut off = 0usize;
    let len = payload.len();
    while off < len {
        if off + 8 > len {
            return (items, true);
        }
        let typ = rd16(payload, off);
        let flags = rd16(payload, off + 2);
        let size = rd32(payload, off + 4) as usize;
        if size < 8 {
            return (items, true);
        }
        let next = off as u64 + ((size as u64 + 7) & !7);
        if next > len as u64 {
            return (items, true);
        }
        items.push(HWalkItem { off, typ, flags, size });
        off = next as usize;
    }
    (items, false)
}

/// Boot-information side of the reference model: spec encoders written from
/// the layouts in DESIGN Appendix A.  All images are *unpadded* (exactly
/// `size` bytes).
pub mod bi {
    use super::*;

    pub const END: u32 = 0;
    pub const CMDLINE: u32 = 1;
    pub const BOOTLOADER: u32 = 2;
    pub const MODULE: u32 = 3;
    pub const MEMINFO: u32 = 4;
    pub const BOOTDEV: u32 = 5;
    pub const MMAP: u32 = 6;
    pub const VBE: u32 = 7;
    pub const FRAMEBUFFER: u32 = 8;
    pub const ELF: u32 = 9;
    pub const APM: u32 = 10;
    pub const EFI32: u32 = 11;
    pub const EFI64: u32 = 12;
    pub const SMBIOS: u32 = 13;
    pub const ACPI1: u32 = 14;
    pub const ACPI2: u32 = 15;
    pub const NETWORK: u32 = 16;
    pub const EFI_MMAP: u32 = 17;
    pub const EFI_BS: u32 = 18;
    pub const EFI32_IH: u32 = 19;
    pub const EFI64_IH: u32 = 20;
    pub const LOAD_BASE: u32 = 21;
    pub const CUSTOM: u32 = 0x1337;

    pub const KIND_NAMES: [&str; 22] = [
        "End", "Cmdline", "BootLoaderName", "Module", "BasicMeminfo", "Bootdev", "Mmap", "Vbe", "Framebuffer",
        "ElfSections", "Apm", "Efi32", "Efi64", "Smbios", "AcpiV1", "AcpiV2", "Network", "EfiMmap", "EfiBs",
        "Efi32Ih", "Efi64Ih", "LoadBaseAddr",
    ];
    pub fn kind_name(t: u32) -> &'static str {
        if (t as usize) < 22 {
            KIND_NAMES[t as usize]
        } else {
            "Custom"
        }
    }
    /// Size of the fixed part of each kind (offset of the variable part for
    /// DST kinds, spec size for sized kinds).
    pub fn fixed_size(t: u32) -> usize {
        match t {
            END | EFI_BS => 8,
            CMDLINE | BOOTLOADER | NETWORK => 8,
            MODULE | MMAP | SMBIOS | EFI_MMAP => 16,
            MEMINFO | EFI64 | EFI64_IH => 16,
            BOOTDEV | ELF => 20,
            VBE => 784,
            FRAMEBUFFER => 32,
            APM | ACPI1 => 28,
            EFI32 | EFI32_IH | LOAD_BASE => 12,
            ACPI2 => 44,
            _ => 8,
        }
    }
    pub fn is_dst(t: u32) -> bool {
        matches!(t, CMDLINE | BOOTLOADER | MODULE | MMAP | FRAMEBUFFER | ELF | SMBIOS | NETWORK | EFI_MMAP) || t > 21
    }

    pub fn tag(typ: u32, body: &[u8]) -> Vec<u8> {
        let mut v = Vec::with_capacity(8 + body.len());
        v.extend_from_slice(&typ.to_le_bytes());
        v.extend_from_slice(&((8 + body.len()) as u32).to_le_bytes());
        v.extend_from_slice(body);
        v
    }
    pub fn end_tag() -> Vec<u8> {
        tag(END, &[])
    }
    /// Build a region: 8-byte header (total size, reserved 0) + each tag
    /// padded to 8 with `pad(tag index, byte index)`.
    pub fn region(tags: &[Vec<u8>], pad: &dyn Fn(usize, usize) -> u8) -> Vec<u8> {
        let mut v = vec![0u8; 8];
        for (ti, t) in tags.iter().enumerate() {
            v.extend_from_slice(t);
            let mut k = 0;
            while v.len() % 8 != 0 {
                v.push(pad(ti, k));
                k += 1;
            }
        }
        let n = v.len() as u32;
        wr32(&mut v, 0, n);
        v
    }
    pub fn zero_pad(_: usize, _: usize) -> u8 {
        0
    }
    pub fn marker_pad(t: usize, k: usize) -> u8 {
        0xF0 | (((t * 3 + k) & 0x7) as u8) | 0x08
    }

    fn body(n: usize, salt: usize) -> Vec<u8> {
        (0..n).map(|i| marker(i + 8, salt)).collect()
    }

    // ---- encoders (little-endian, literal offsets) -------------------------
    pub fn enc_string(typ: u32, text_with_nul: &[u8]) -> Vec<u8> {
        tag(typ, text_with_nul)
    }
    pub fn enc_module(start: u32, end: u32, text_with_nul: &[u8]) -> Vec<u8> {
        let mut b = Vec::new();
        b.extend_from_slice(&start.to_le_bytes());
        b.extend_from_slice(&end.to_le_bytes());
        b.extend_from_slice(text_with_nul);
        tag(MODULE, &b)
    }
    pub fn enc_meminfo(lower: u32, upper: u32) -> Vec<u8> {
        let mut b = Vec::new();
        b.extend_from_slice(&lower.to_le_bytes());
        b.extend_from_slice(&upper.to_le_bytes());
        tag(MEMINFO, &b)
    }
    pub fn enc_bootdev(biosdev: u32, partition: u32, sub: u32) -> Vec<u8> {
        let mut b = Vec::new();
        for x in [biosdev, partition, sub] {
            b.extend_from_slice(&x.to_le_bytes());
        }
        tag(BOOTDEV, &b)
    }
    pub fn enc_mmap(entry_size: u32, version: u32, entries: &[(u64, u64, u32, u32)]) -> Vec<u8> {
        let mut b = Vec::new();
        b.extend_from_slice(&entry_size.to_le_bytes());
        b.extend_from_slice(&version.to_le_bytes());
        for e in entries {
            b.extend_from_slice(&e.0.to_le_bytes());
            b.extend_from_slice(&e.1.to_le_bytes());
            b.extend_from_slice(&e.2.to_le_bytes());
            b.extend_from_slice(&e.3.to_le_bytes());
        }
        tag(MMAP, &b)
    }
    pub fn enc_vbe(mode: u16, seg: u16, off: u16, len: u16, control: &[u8], mode_info: &[u8]) -> Vec<u8> {
        assert_eq!(control.len(), 512);
        assert_eq!(mode_info.len(), 256);
        let mut b = Vec::new();
        for x in [mode, seg, off, len] {
            b.extend_from_slice(&x.to_le_bytes());
        }
        b.extend_from_slice(control);
        b.extend_from_slice(mode_info);
        tag(VBE, &b)
    }
    pub fn enc_framebuffer(addr: u64, pitch: u32, width: u32, height: u32, bpp: u8, typ: u8, color_info: &[u8]) -> Vec<u8> {
        let mut b = Vec::new();
        b.extend_from_slice(&addr.to_le_bytes());
        for x in [pitch, width, height] {
            b.extend_from_slice(&x.to_le_bytes());
        }
        b.push(bpp);
        b.push(typ);
        b.extend_from_slice(&[0, 0]);
        b.extend_from_slice(color_info);
        tag(FRAMEBUFFER, &b)
    }
    pub fn enc_palette(colors: &[(u8, u8, u8)]) -> Vec<u8> {
        let mut b = Vec::new();
        b.extend_from_slice(&(colors.len() as u16).to_le_bytes());
        for c in colors {
            b.extend_from_slice(&[c.0, c.1, c.2]);
        }
        b
    }
    pub fn enc_elf(num: u32, entsize: u32, shndx: u32, sections: &[u8]) -> Vec<u8> {
        let mut b = Vec::new();
        for x in [num, entsize, shndx] {
            b.extend_from_slice(&x.to_le_bytes());
        }
        b.extend_from_slice(sections);
        tag(ELF, &b)
    }
    #[allow(clippy::too_many_arguments)]
    pub fn enc_apm(version: u16, cseg: u16, offset: u32, cseg_16: u16, dseg: u16, flags: u16, cseg_len: u16, cseg_16_len: u16, dseg_len: u16) -> Vec<u8> {
        let mut b = Vec::new();
        b.extend_from_slice(&version.to_le_bytes());
        b.extend_from_slice(&cseg.to_le_bytes());
        b.extend_from_slice(&offset.to_le_bytes());
        for x in [cseg_16, dseg, flags, cseg_len, cseg_16_len, dseg_len] {
            b.extend_from_slice(&x.to_le_bytes());
        }
        tag(APM, &b)
    }
    pub fn enc_u32(typ: u32, v: u32) -> Vec<u8> {
        tag(typ, &v.to_le_bytes())
    }
    pub fn enc_u64(typ: u32, v: u64) -> Vec<u8> {
        tag(typ, &v.to_le_bytes())
    }
    pub fn enc_smbios(major: u8, minor: u8, tables: &[u8]) -> Vec<u8> {
        let mut b = vec![major, minor, 0, 0, 0, 0, 0, 0];
        b.extend_from_slice(tables);
        tag(SMBIOS, &b)
    }
    /// SMBIOS tags whose tables begin with an entry-point structure as firmware provides it: the 32-bit one (`_SM_`,
    /// 31 bytes long by its own length byte) and the 64-bit one (`_SM3_`, 24 bytes) - contents that describe their own
    /// length.
    pub fn smbios_entry_points() -> Vec<Vec<u8>> {
        let mut sm = b"_SM_".to_vec();
        sm.extend_from_slice(&[0xC2, 0x1F, 2, 8, 0x2A, 0, 0, 0, 0, 0, 0, 0]);
        sm.extend_from_slice(b"_DMI_");
        sm.extend_from_slice(&[0x6E, 0x9D, 0x01, 0x00, 0xF0, 0x0E, 0x00, 0x1B, 0x00, 0x28]);
        let mut sm3 = b"_SM3_".to_vec();
        sm3.extend_from_slice(&[0x5A, 0x18, 3, 0, 0, 1, 0, 0x9D, 1, 0, 0, 0xF0, 0x0E, 0x0F, 0, 0, 0, 0, 0]);
        vec![enc_smbios(2, 8, &sm), enc_smbios(3, 0, &sm3)]
    }
    /// Blob contents with an inner structure of their own (a parser that understands them could cut them): an SMBIOS
    /// structure table (types 0, 1, 127 with string sets) and a DHCP ACK, each exact and with bytes behind their own end.
    pub fn structured_blobs() -> Vec<(&'static str, Vec<u8>)> {
        let mut t = vec![0u8, 0x18, 0x00, 0x00, 1, 2, 0x00, 0xE8, 3, 0, 0, 0, 0, 0, 0, 0, 0, 0, 0, 0, 0, 0, 0, 0];
        t.extend_from_slice(b"SeaBIOS\0rel-1.16.2\004/01/2014\0\0");
        t.extend_from_slice(&[1, 0x1B, 0x00, 0x01, 1, 2, 3, 0, 0, 0, 0, 0, 0, 0, 0, 0, 0, 0, 0, 0, 0, 0, 0, 0, 6, 0, 0]);
        t.extend_from_slice(b"QEMU\0Standard PC\0pc-i440fx\0\0");
        t.extend_from_slice(&[127, 4, 0x00, 0x7F, 0, 0]);
        let mut t2 = t.clone();
        t2.extend_from_slice(&[0xEE, 0x00, 0x55, 0xAA, 0, 0, 0, 1]);
        let minimal = vec![127u8, 4, 2, 0, 0, 0, 0xEE];
        let mut pkt = vec![0u8; 236];
        pkt[0] = 2;
        pkt[1] = 1;
        pkt[2] = 6;
        pkt[16..20].copy_from_slice(&[10, 0, 2, 15]);
        pkt[28..34].copy_from_slice(&[0x52, 0x54, 0x00, 0x12, 0x34, 0x56]);
        pkt.extend_from_slice(&[99, 130, 83, 99, 53, 1, 5, 54, 4, 10, 0, 2, 2, 1, 4, 255, 255, 255, 0, 255]);
        let mut pkt2 = pkt.clone();
        pkt2.resize(300, 0);
        vec![("SMBIOS structure table", t), ("SMBIOS structure table + 8 bytes", t2), ("end-of-table structure + 1 byte", minimal), ("DHCP ACK ending at END", pkt), ("DHCP ACK padded to 300 bytes", pkt2)]
    }
    pub fn enc_rsdp1(checksum: u8, oem: &[u8; 6], revision: u8, rsdt: u32) -> Vec<u8> {
        let mut b = Vec::new();
        b.extend_from_slice(b"RSD PTR ");
        b.push(checksum);
        b.extend_from_slice(oem);
        b.push(revision);
        b.extend_from_slice(&rsdt.to_le_bytes());
        tag(ACPI1, &b)
    }
    #[allow(clippy::too_many_arguments)]
    pub fn enc_rsdp2(checksum: u8, oem: &[u8; 6], revision: u8, rsdt: u32, length: u32, xsdt: u64, ext_checksum: u8) -> Vec<u8> {
        let mut b = Vec::new();
        b.extend_from_slice(b"RSD PTR ");
        b.push(checksum);
        b.extend_from_slice(oem);
        b.push(revision);
        b.extend_from_slice(&rsdt.to_le_bytes());
        b.extend_from_slice(&length.to_le_bytes());
        b.extend_from_slice(&xsdt.to_le_bytes());
        b.push(ext_checksum);
        b.extend_from_slice(&[0, 0, 0]);
        tag(ACPI2, &b)
    }
    pub fn enc_efi_mmap(desc_size: u32, version: u32, map: &[u8]) -> Vec<u8> {
        let mut b = Vec::new();
        b.extend_from_slice(&desc_size.to_le_bytes());
        b.extend_from_slice(&version.to_le_bytes());
        b.extend_from_slice(map);
        tag(EFI_MMAP, &b)
    }
    /// One EFI memory descriptor (40 bytes): type, pad, phys, virt, pages, attribute.
    pub fn enc_efi_desc(typ: u32, phys: u64, virt: u64, pages: u64, att: u64) -> Vec<u8> {
        let mut b = Vec::new();
        b.extend_from_slice(&typ.to_le_bytes());
        b.extend_from_slice(&[0; 4]);
        for x in [phys, virt, pages, att] {
            b.extend_from_slice(&x.to_le_bytes());
        }
        b
    }
    /// ELF64 section header (64 bytes).
    #[allow(clippy::too_many_arguments)]
    pub fn enc_shdr64(name: u32, typ: u32, flags: u64, addr: u64, offset: u64, size: u64, link: u32, info: u32, align: u64, entsize: u64) -> Vec<u8> {
        let mut b = Vec::new();
        b.extend_from_slice(&name.to_le_bytes());
        b.extend_from_slice(&typ.to_le_bytes());
        for x in [flags, addr, offset, size] {
            b.extend_from_slice(&x.to_le_bytes());
        }
        b.extend_from_slice(&link.to_le_bytes());
        b.extend_from_slice(&info.to_le_bytes());
        b.extend_from_slice(&align.to_le_bytes());
        b.extend_from_slice(&entsize.to_le_bytes());
        b
    }
    /// ELF32 section header (40 bytes).
    #[allow(clippy::too_many_arguments)]
    pub fn enc_shdr32(name: u32, typ: u32, flags: u32, addr: u32, offset: u32, size: u32, link: u32, info: u32, align: u32, entsize: u32) -> Vec<u8> {
        let mut b = Vec::new();
        for x in [name, typ, flags, addr, offset, size, link, info, align, entsize] {
            b.extend_from_slice(&x.to_le_bytes());
        }
        b
    }

    /// RSDP checksum byte that makes `bytes` sum to zero, given all other bytes.
    pub fn fix_sum(bytes: &mut [u8], at: usize) {
        bytes[at] = 0;
        let s: u8 = bytes.iter().fold(0u8, |a, b| a.wrapping_add(*b));
        bytes[at] = 0u8.wrapping_sub(s);
    }

    /// A spec-conformant sample image of kind `t` with marker bytes in every
    /// free field; `salt` varies the markers, `n` scales the variable part.
    pub fn sample(t: u32, salt: usize, n: usize) -> Vec<u8> {
        match t {
            END => end_tag(),
            CMDLINE | BOOTLOADER => {
                let mut s: Vec<u8> = (0..n).map(|i| b"abcdefghijklmnopqrstuvwxyz"[(i + salt) % 26]).collect();
                s.push(0);
                enc_string(t, &s)
            }
            MODULE => {
                let mut s: Vec<u8> = (0..n).map(|i| b"mnopqrstuvwxyzabcdefghijkl"[(i + salt) % 26]).collect();
                s.push(0);
                enc_module(0x0010_0000 + salt as u32 * 0x1000, 0x0020_0000 + salt as u32 * 0x1000 + 0x123, &s)
            }
            MEMINFO => enc_meminfo(0x0000_027F + salt as u32, 0x0001_FB80 + salt as u32 * 7),
            BOOTDEV => enc_bootdev(0x80 + salt as u32, 0x0102_0304 ^ salt as u32, 0xA1B2_C3D4),
            MMAP => {
                let e: Vec<(u64, u64, u32, u32)> = (0..n).map(|i| (0x1000 * (i as u64 + 1) + salt as u64, 0x0800_0000_0000 + 0x333 * (i as u64 + 1), (i as u32 % 5) + 1, 0)).collect();
                enc_mmap(24, 0, &e)
            }
            VBE => {
                let mut control: Vec<u8> = (0..512).map(|i| marker(i, salt + 11)).collect();
                let mut mode: Vec<u8> = (0..256).map(|i| marker(i, salt + 13)).collect();
                control[0..4].copy_from_slice(b"VESA");
                mode[27] = (salt % 8) as u8; // memory model: a defined value
                enc_vbe(0x4118 + salt as u16, 0xC000, 0x5A10, 0x0193, &control, &mode)
            }
            FRAMEBUFFER => match n % 3 {
                0 => enc_framebuffer(0xFD00_0000 + salt as u64, 4096, 1024, 768, 32, 1, &[16, 8, 8, 8, 0, 8]),
                1 => enc_framebuffer(0xB8000, 160, 80, 25, 16, 2, &[]),
                _ => enc_framebuffer(0xA0000 + salt as u64, 320, 320, 200, 8, 0, &enc_palette(&[(0x11, 0x22, 0x33), (0xF4, 0xF5, 0xF6)])),
            },
            ELF => {
                let mut s = Vec::new();
                for i in 0..n.max(1) {
                    s.extend(enc_shdr64(i as u32, 1 + (i as u32 % 3), 2 | (i as u64 & 1), 0xFFFF_8000_0010_0000 + 0x1000 * i as u64, 0x1000 * i as u64, 0x0800 + i as u64, 0, 0, 16, 0));
                }
                enc_elf(n.max(1) as u32, 64, 0, &s)
            }
            APM => enc_apm(0x0102, 0xF000, 0x0000_8A4B, 0xF001, 0x0040, 0x0003, 0xFFF0, 0xFFF1, 0x0FF2),
            EFI32 => enc_u32(t, 0x7FE8_1018 + salt as u32),
            EFI64 => enc_u64(t, 0x0000_0001_7FE8_1018 + salt as u64),
            SMBIOS => enc_smbios(3, 2 + salt as u8, &body(n, salt + 5)),
            ACPI1 => {
                let mut v = enc_rsdp1(0, b"BOCHS ", 0, 0x07FE_14E0 + salt as u32);
                fix_sum(&mut v[8..28], 8);
                v
            }
            ACPI2 => {
                let mut v = enc_rsdp2(0, b"VRTUAL", 2, 0x07FE_14E0, 36, 0x0000_0000_7FE1_5000 + salt as u64, 0);
                fix_sum(&mut v[8..28], 8);
                fix_sum(&mut v[8..44], 32);
                v
            }
            NETWORK => tag(NETWORK, &body(n, salt + 7)),
            EFI_MMAP => {
                let mut m = Vec::new();
                for i in 0..n {
                    m.extend(enc_efi_desc(7 - (i as u32 % 4), 0x1000 * (i as u64 + 1), 0, 16 + i as u64, 0xF));
                    m.extend_from_slice(&[0xEE; 8]); // desc_size 48: 8 bytes the firmware reserves
                }
                enc_efi_mmap(48, 1, &m)
            }
            EFI_BS => tag(EFI_BS, &[]),
            EFI32_IH => enc_u32(t, 0x7E5A_3018 + salt as u32),
            EFI64_IH => enc_u64(t, 0x0000_0002_7E5A_3018 + salt as u64),
            LOAD_BASE => enc_u32(t, 0x0020_0000 + salt as u32 * 0x1000),
            other => tag(other, &body(n, salt + 9)),
        }
    }
}

/// One observed / expected accessor result (address-free).
#[derive(Clone, Debug, PartialEq, Eq)]
pub enum Val {
    U(u64),
    /// slice / str: offset relative to the owning tag, byte length, content hash
    S { off: i64, len: usize, hash: u64 },
    /// an error value of the accessor's Result (small code)
    E(u32),
    Panic,
}

#[derive(Clone, Debug, PartialEq, Eq)]
pub struct Rec {
    pub name: &'static str,
    pub val: Val,
}

/// Reference decoders: the record list the accessor battery must produce for
/// a spec-conformant tag image `t` (at least `size` bytes), read at literal
/// offsets (DESIGN Appendix A).  `Debug` entries are not part of it.
pub mod decode {
    use super::bi::*;
    use super::*;
    use crate::hash::hash_bytes;

    fn u(v: &mut Vec<Rec>, name: &'static str, x: u64) {
        v.push(Rec { name, val: Val::U(x) });
    }
    fn s(v: &mut Vec<Rec>, name: &'static str, t: &[u8], off: usize, len: usize) {
        v.push(Rec { name, val: Val::S { off: off as i64, len, hash: hash_bytes(&t[off..off + len]) } });
    }
    fn utf8(v: &mut Vec<Rec>, name: &'static str, t: &[u8], off: usize, len: usize) {
        if std::str::from_utf8(&t[off..off + len]).is_ok() {
            s(v, name, t, off, len)
        } else {
            v.push(Rec { name, val: Val::E(2) })
        }
    }
    /// NUL-terminated UTF-8 text inside t[off..size]
    fn cstr(v: &mut Vec<Rec>, name: &'static str, t: &[u8], off: usize, size: usize) {
        match t[off..size].iter().position(|&b| b == 0) {
            None => v.push(Rec { name, val: Val::E(1) }),
            Some(i) => utf8(v, name, t, off, i),
        }
    }

    /// Whether the derived-arithmetic accessors of this image stay in range
    /// (DESIGN 6: they are outside C04/C08).
    pub fn derived_ok(kind: u32, t: &[u8]) -> bool {
        let size = rd32(t, 4) as usize;
        match kind {
            MODULE => rd32(t, 12) >= rd32(t, 8),
            MMAP => (0..(size - 16) / 24).all(|i| rd64(t, 16 + 24 * i).checked_add(rd64(t, 24 + 24 * i)).is_some()),
            ELF => {
                let (n, es) = (rd32(t, 8) as usize, rd32(t, 12) as usize);
                (0..n).all(|i| {
                    let o = 20 + i * es;
                    if es == 40 {
                        true
                    } else {
                        rd64(t, o + 16).checked_add(rd64(t, o + 32)).is_some()
                    }
                })
            }
            _ => true,
        }
    }

    pub fn tag(kind: u32, t: &[u8], derived: bool, vbe_memory_model: bool) -> Vec<Rec> {
        let mut v = Vec::new();
        let size = rd32(t, 4) as usize;
        let vbe = kind == VBE;
        u(&mut v, "header.typ", rd32(t, 0) as u64);
        u(&mut v, "header.size", size as u64);
        u(&mut v, "size_of_val", round8(size) as u64);
        if !vbe && kind <= 21 {
            u(&mut v, "as_bytes.len", round8(size) as u64);
        }
        match kind {
            CMDLINE => cstr(&mut v, "cmdline", t, 8, size),
            BOOTLOADER => {
                cstr(&mut v, "name", t, 8, size);
                u(&mut v, "typ", rd32(t, 0) as u64);
                u(&mut v, "size", size as u64);
            }
            MODULE => {
                u(&mut v, "start_address", rd32(t, 8) as u64);
                u(&mut v, "end_address", rd32(t, 12) as u64);
                if derived {
                    u(&mut v, "module_size", (rd32(t, 12) - rd32(t, 8)) as u64);
                }
                cstr(&mut v, "cmdline", t, 16, size);
            }
            MEMINFO => {
                u(&mut v, "memory_lower", rd32(t, 8) as u64);
                u(&mut v, "memory_upper", rd32(t, 12) as u64);
            }
            BOOTDEV => {
                u(&mut v, "biosdev", rd32(t, 8) as u64);
                u(&mut v, "slice", rd32(t, 12) as u64);
                u(&mut v, "part", rd32(t, 16) as u64);
            }
            MMAP => {
                u(&mut v, "entry_size", rd32(t, 8) as u64);
                u(&mut v, "entry_version", rd32(t, 12) as u64);
                s(&mut v, "memory_areas", t, 16, size - 16);
                for i in 0..((size - 16) / 24).min(6) {
                    let o = 16 + 24 * i;
                    u(&mut v, "area.start_address", rd64(t, o));
                    u(&mut v, "area.size", rd64(t, o + 8));
                    u(&mut v, "area.typ", rd32(t, o + 16) as u64);
                    if derived {
                        u(&mut v, "area.end_address", rd64(t, o) + rd64(t, o + 8));
                    }
                }
            }
            VBE => {
                u(&mut v, "mode", rd16(t, 8) as u64);
                u(&mut v, "interface_segment", rd16(t, 10) as u64);
                u(&mut v, "interface_offset", rd16(t, 12) as u64);
                u(&mut v, "interface_length", rd16(t, 14) as u64);
                let c = 16;
                u(&mut v, "control.signature", rd32(t, c) as u64);
                u(&mut v, "control.version", rd16(t, c + 4) as u64);
                u(&mut v, "control.oem_string_ptr", rd32(t, c + 6) as u64);
                u(&mut v, "control.capabilities", rd32(t, c + 10) as u64);
                u(&mut v, "control.mode_list_ptr", rd32(t, c + 14) as u64);
                u(&mut v, "control.total_memory", rd16(t, c + 18) as u64);
                u(&mut v, "control.oem_software_revision", rd16(t, c + 20) as u64);
                u(&mut v, "control.oem_vendor_name_ptr", rd32(t, c + 22) as u64);
                u(&mut v, "control.oem_product_name_ptr", rd32(t, c + 26) as u64);
                u(&mut v, "control.oem_product_revision_ptr", rd32(t, c + 30) as u64);
                let m = 528;
                u(&mut v, "mode.mode_attributes", rd16(t, m) as u64);
                u(&mut v, "mode.window_a_attributes", t[m + 2] as u64);
                u(&mut v, "mode.window_b_attributes", t[m + 3] as u64);
                u(&mut v, "mode.window_granularity", rd16(t, m + 4) as u64);
                u(&mut v, "mode.window_size", rd16(t, m + 6) as u64);
                u(&mut v, "mode.window_a_segment", rd16(t, m + 8) as u64);
                u(&mut v, "mode.window_b_segment", rd16(t, m + 10) as u64);
                u(&mut v, "mode.window_function_ptr", rd32(t, m + 12) as u64);
                u(&mut v, "mode.pitch", rd16(t, m + 16) as u64);
                u(&mut v, "mode.resolution.0", rd16(t, m + 18) as u64);
                u(&mut v, "mode.resolution.1", rd16(t, m + 20) as u64);
                u(&mut v, "mode.character_size.0", t[m + 22] as u64);
                u(&mut v, "mode.character_size.1", t[m + 23] as u64);
                u(&mut v, "mode.number_of_planes", t[m + 24] as u64);
                u(&mut v, "mode.bpp", t[m + 25] as u64);
                u(&mut v, "mode.number_of_banks", t[m + 26] as u64);
                if vbe_memory_model {
                    u(&mut v, "mode.memory_model", t[m + 27] as u64);
                }
                u(&mut v, "mode.bank_size", t[m + 28] as u64);
                u(&mut v, "mode.number_of_image_pages", t[m + 29] as u64);
                u(&mut v, "mode.red_field.size", t[m + 31] as u64);
                u(&mut v, "mode.red_field.position", t[m + 32] as u64);
                u(&mut v, "mode.green_field.size", t[m + 33] as u64);
                u(&mut v, "mode.green_field.position", t[m + 34] as u64);
                u(&mut v, "mode.blue_field.size", t[m + 35] as u64);
                u(&mut v, "mode.blue_field.position", t[m + 36] as u64);
                u(&mut v, "mode.reserved_field.size", t[m + 37] as u64);
                u(&mut v, "mode.reserved_field.position", t[m + 38] as u64);
                u(&mut v, "mode.direct_color_attributes", t[m + 39] as u64);
                u(&mut v, "mode.framebuffer_base_ptr", rd32(t, m + 40) as u64);
                u(&mut v, "mode.offscreen_memory_offset", rd32(t, m + 44) as u64);
                u(&mut v, "mode.offscreen_memory_size", rd16(t, m + 48) as u64);
            }
            FRAMEBUFFER => {
                u(&mut v, "address", rd64(t, 8));
                u(&mut v, "pitch", rd32(t, 16) as u64);
                u(&mut v, "width", rd32(t, 20) as u64);
                u(&mut v, "height", rd32(t, 24) as u64);
                u(&mut v, "bpp", t[28] as u64);
                match t[29] {
                    0 => {
                        let n = rd16(t, 32) as usize;
                        u(&mut v, "buffer_type", 0);
                        s(&mut v, "palette", t, 34, 3 * n);
                        for i in 0..n.min(4) {
                            u(&mut v, "color", (t[34 + 3 * i] as u64) << 16 | (t[35 + 3 * i] as u64) << 8 | t[36 + 3 * i] as u64);
                        }
                    }
                    1 => {
                        u(&mut v, "buffer_type", 1);
                        u(&mut v, "red", (t[32] as u64) << 8 | t[33] as u64);
                        u(&mut v, "green", (t[34] as u64) << 8 | t[35] as u64);
                        u(&mut v, "blue", (t[36] as u64) << 8 | t[37] as u64);
                    }
                    2 => u(&mut v, "buffer_type", 2),
                    b => v.push(Rec { name: "buffer_type", val: Val::E(0x100 + b as u32) }),
                }
            }
            ELF => {
                let (n, es) = (rd32(t, 8) as usize, rd32(t, 12) as usize);
                u(&mut v, "number_of_sections", n as u64);
                u(&mut v, "entry_size", es as u64);
                u(&mut v, "shndx", rd32(t, 16) as u64);
                let mut k = 0usize;
                for _ in 0..10 {
                    u(&mut v, "sections.len", (n - k) as u64);
                    // skip unused
                    let mut found = None;
                    while k < n {
                        let o = 20 + k * es;
                        k += 1;
                        let raw = rd32(t, o + 4);
                        if matches!(raw, 1..=11 | 0x6000_0000..=0x7FFF_FFFF) {
                            found = Some(o);
                            break;
                        }
                    }
                    match found {
                        None => {
                            v.push(Rec { name: "sections.next", val: Val::E(0) });
                            break;
                        }
                        Some(o) => {
                            u(&mut v, "sections.next", 1);
                            let raw = rd32(t, o + 4);
                            let (flags, addr, sz, align) = if es == 40 { (rd32(t, o + 8) as u64, rd32(t, o + 12) as u64, rd32(t, o + 20) as u64, rd32(t, o + 32) as u64) } else { (rd64(t, o + 8), rd64(t, o + 16), rd64(t, o + 32), rd64(t, o + 48)) };
                            u(&mut v, "section.type_raw", raw as u64);
                            u(&mut v, "section.type", match raw {
                                0x6000_0000..=0x6FFF_FFFF => 0x6000_0000,
                                0x7000_0000..=0x7FFF_FFFF => 0x7000_0000,
                                r => r as u64,
                            });
                            u(&mut v, "section.flags", flags & 7);
                            u(&mut v, "section.start_address", addr);
                            u(&mut v, "section.size", sz);
                            u(&mut v, "section.addralign", align);
                            u(&mut v, "section.is_allocated", (flags >> 1) & 1);
                            if derived {
                                u(&mut v, "section.end_address", addr + sz);
                            }
                        }
                    }
                }
            }
            APM => {
                u(&mut v, "version", rd16(t, 8) as u64);
                u(&mut v, "cseg", rd16(t, 10) as u64);
                u(&mut v, "offset", rd32(t, 12) as u64);
                u(&mut v, "cset_16", rd16(t, 16) as u64);
                u(&mut v, "dseg", rd16(t, 18) as u64);
                u(&mut v, "flags", rd16(t, 20) as u64);
                u(&mut v, "cseg_len", rd16(t, 22) as u64);
                u(&mut v, "cseg_16_len", rd16(t, 24) as u64);
                u(&mut v, "dseg_len", rd16(t, 26) as u64);
            }
            EFI32 => u(&mut v, "sdt_address", rd32(t, 8) as u64),
            EFI64 => u(&mut v, "sdt_address", rd64(t, 8)),
            EFI32_IH => u(&mut v, "image_handle", rd32(t, 8) as u64),
            EFI64_IH => u(&mut v, "image_handle", rd64(t, 8)),
            SMBIOS => {
                u(&mut v, "major", t[8] as u64);
                u(&mut v, "minor", t[9] as u64);
                s(&mut v, "tables", t, 16, size - 16);
            }
            ACPI1 => {
                utf8(&mut v, "signature", t, 8, 8);
                u(&mut v, "checksum_is_valid", (t[8..28].iter().fold(0u8, |a, b| a.wrapping_add(*b)) == 0) as u64);
                utf8(&mut v, "oem_id", t, 17, 6);
                u(&mut v, "revision", t[23] as u64);
                u(&mut v, "rsdt_address", rd32(t, 24) as u64);
            }
            ACPI2 => {
                utf8(&mut v, "signature", t, 8, 8);
                // a stored length above the 36 bytes the tag holds cannot be summed inside the tag: not valid
                let len = rd32(t, 28) as usize;
                u(&mut v, "checksum_is_valid", (len <= 36 && t[8..8 + len].iter().fold(0u8, |a, b| a.wrapping_add(*b)) == 0) as u64);
                utf8(&mut v, "oem_id", t, 17, 6);
                u(&mut v, "revision", t[23] as u64);
                u(&mut v, "xsdt_address", rd64(t, 32));
                u(&mut v, "ext_checksum", t[40] as u64);
            }
            NETWORK => u(&mut v, "metadata", (size - 8) as u64),
            EFI_MMAP => {
                let d = rd32(t, 8) as usize;
                let n = (size - 16) / d;
                for i in 0..8 {
                    u(&mut v, "areas.len", (n - i.min(n)) as u64);
                    if i < n {
                        let o = 16 + i * d;
                        v.push(Rec { name: "areas.next", val: Val::S { off: o as i64, len: 40, hash: 0 } });
                        u(&mut v, "desc.ty", rd32(t, o) as u64);
                        u(&mut v, "desc.phys_start", rd64(t, o + 8));
                        u(&mut v, "desc.virt_start", rd64(t, o + 16));
                        u(&mut v, "desc.page_count", rd64(t, o + 24));
                        u(&mut v, "desc.att", rd64(t, o + 32));
                    } else {
                        v.push(Rec { name: "areas.next", val: Val::E(0) });
                        break;
                    }
                }
            }
            LOAD_BASE => u(&mut v, "load_base_addr", rd32(t, 8) as u64),
            END | EFI_BS => {}
            _ => {
                // generic / custom
                s(&mut v, "payload", t, 8, size - 8);
            }
        }
        v
    }
}

/// Header-crate side of the reference model (Multiboot2 header and its tags).
pub mod hd {
    use super::*;
    pub const MAGIC: u32 = 0xE852_50D6;
    pub const END: u16 = 0;
    pub const INFO_REQ: u16 = 1;
    pub const ADDRESS: u16 = 2;
    pub const ENTRY: u16 = 3;
    pub const CONSOLE: u16 = 4;
    pub const FRAMEBUFFER: u16 = 5;
    pub const MODULE_ALIGN: u16 = 6;
    pub const EFI_BS: u16 = 7;
    pub const ENTRY_EFI32: u16 = 8;
    pub const ENTRY_EFI64: u16 = 9;
    pub const RELOCATABLE: u16 = 10;
    pub const KIND_NAMES: [&str; 11] = ["End", "InformationRequest", "Address", "EntryAddress", "ConsoleFlags", "Framebuffer", "ModuleAlign", "EfiBS", "EntryAddressEFI32", "EntryAddressEFI64", "Relocatable"];
    pub fn kind_name(t: u16) -> &'static str {
        KIND_NAMES.get(t as usize).copied().unwrap_or("?")
    }
    pub fn fixed_size(t: u16) -> usize {
        match t {
            END | MODULE_ALIGN | EFI_BS | INFO_REQ => 8,
            ADDRESS | RELOCATABLE => 24,
            ENTRY | CONSOLE | ENTRY_EFI32 | ENTRY_EFI64 => 12,
            FRAMEBUFFER => 20,
            _ => 8,
        }
    }
    pub fn tag(typ: u16, flags: u16, body: &[u8]) -> Vec<u8> {
        let mut v = Vec::new();
        v.extend_from_slice(&typ.to_le_bytes());
        v.extend_from_slice(&flags.to_le_bytes());
        v.extend_from_slice(&((8 + body.len()) as u32).to_le_bytes());
        v.extend_from_slice(body);
        v
    }
    pub fn words(typ: u16, flags: u16, w: &[u32]) -> Vec<u8> {
        let mut b = Vec::new();
        for x in w {
            b.extend_from_slice(&x.to_le_bytes());
        }
        tag(typ, flags, &b)
    }
    pub fn end_tag() -> Vec<u8> {
        tag(END, 0, &[])
    }
    /// A spec-conformant sample of kind `t` with marker values in free fields.
    pub fn sample(t: u16, salt: u32, n: usize) -> Vec<u8> {
        let f = (salt & 1) as u16;
        match t {
            END => end_tag(),
            INFO_REQ => words(t, f, &(0..n as u32).map(|i| [1, 6, 9, 17, 21, 0x1337, 3, 8][(i as usize + salt as usize) % 8] + 0).collect::<Vec<_>>()),
            ADDRESS => words(t, f, &[0x0010_0000 + salt, 0x0010_1000 + salt, 0x0020_2000 + salt, 0x0030_3000 + salt]),
            ENTRY | ENTRY_EFI32 | ENTRY_EFI64 => words(t, f, &[0x0010_4A5B + salt * 0x101 + t as u32]),
            CONSOLE => words(t, f, &[salt & 1]),
            FRAMEBUFFER => words(t, f, &[1024 + salt, 768 + salt * 3, 32 - salt]),
            MODULE_ALIGN | EFI_BS => tag(t, f, &[]),
            RELOCATABLE => words(t, f, &[0x0020_0000 + salt, 0x3FFF_F000 + salt, 0x1000 << (salt % 4), salt % 3]),
            _ => tag(t, f, &[]),
        }
    }
    /// Build a header: 16-byte basic header + tags padded to 8; length and
    /// checksum computed.
    pub fn header(arch: u32, tags: &[Vec<u8>], pad: u8) -> Vec<u8> {
        let mut v = vec![0u8; 16];
        for t in tags {
            v.extend_from_slice(t);
            while v.len() % 8 != 0 {
                v.push(pad);
            }
        }
        let len = v.len() as u32;
        wr32(&mut v, 0, MAGIC);
        wr32(&mut v, 4, arch);
        wr32(&mut v, 8, len);
        fix_checksum(&mut v);
        v
    }
    pub fn fix_checksum(v: &mut [u8]) {
        let c = 0u32.wrapping_sub(rd32(v, 0)).wrapping_sub(rd32(v, 4)).wrapping_sub(rd32(v, 8));
        wr32(v, 12, c);
    }

    /// Reference record list for one header tag (`t` holds at least `size` bytes).
    pub fn decode(kind: u16, t: &[u8]) -> Vec<Rec> {
        let mut v = Vec::new();
        let size = rd32(t, 4) as usize;
        let mut u = |name: &'static str, x: u64| v.push(Rec { name, val: Val::U(x) });
        u("typ", rd16(t, 0) as u64);
        u("flags", rd16(t, 2) as u64);
        u("size", size as u64);
        u("size_of_val", round8(size) as u64);
        match kind {
            ADDRESS => {
                u("header_addr", rd32(t, 8) as u64);
                u("load_addr", rd32(t, 12) as u64);
                u("load_end_addr", rd32(t, 16) as u64);
                u("bss_end_addr", rd32(t, 20) as u64);
            }
            ENTRY | ENTRY_EFI32 | ENTRY_EFI64 => u("entry_addr", rd32(t, 8) as u64),
            CONSOLE => u("console_flags", rd32(t, 8) as u64),
            FRAMEBUFFER => {
                u("width", rd32(t, 8) as u64);
                u("height", rd32(t, 12) as u64);
                u("depth", rd32(t, 16) as u64);
            }
            RELOCATABLE => {
                u("min_addr", rd32(t, 8) as u64);
                u("max_addr", rd32(t, 12) as u64);
                u("align", rd32(t, 16) as u64);
                u("preference", rd32(t, 20) as u64);
            }
            INFO_REQ => {
                let n = (size - 8) / 4;
                v.push(Rec { name: "requests", val: Val::S { off: 8, len: 4 * n, hash: crate::hash::hash_bytes(&t[8..8 + 4 * n]) } });
                for i in 0..n.min(8) {
                    v.push(Rec { name: "request", val: Val::U(rd32(t, 8 + 4 * i) as u64) });
                }
            }
            _ => {}
        }
        v
    }
}
