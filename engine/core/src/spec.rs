//! Reference models: slice-based encoders / decoders written from the
//! Multiboot2 specification (DESIGN 2.7, Appendix A).  Filled in per check.

#[inline]
pub fn rd16(b: &[u8], o: usize) -> u16 {
    u16::from_le_bytes([b[o], b[o + 1]])
}
#[inline]
pub fn rd32(b: &[u8], o: usize) -> u32 {
    u32::from_le_bytes([b[o], b[o + 1], b[o + 2], b[o + 3]])
}
#[inline]
pub fn rd64(b: &[u8], o: usize) -> u64 {
    let mut t = [0u8; 8];
    t.copy_from_slice(&b[o..o + 8]);
    u64::from_le_bytes(t)
}
#[inline]
pub fn wr16(b: &mut [u8], o: usize, v: u16) {
    b[o..o + 2].copy_from_slice(&v.to_le_bytes());
}
#[inline]
pub fn wr32(b: &mut [u8], o: usize, v: u32) {
    b[o..o + 4].copy_from_slice(&v.to_le_bytes());
}
#[inline]
pub fn wr64(b: &mut [u8], o: usize, v: u64) {
    b[o..o + 8].copy_from_slice(&v.to_le_bytes());
}
#[inline]
pub const fn round8(x: usize) -> usize {
    (x + 7) & !7
}

/// Marker byte for body position `i` (DESIGN 3): non-zero, non-ASCII,
/// neighbours differ.
#[inline]
pub fn marker(i: usize, salt: usize) -> u8 {
    0x80 | (((37 * i + 11 + 53 * salt) & 0x7F) as u8)
}

pub const EDGE32: [u32; 16] = [
    0, 1, 2, 3, 4, 7, 8, 9, 15, 16, 17, 0x7FFF_FFFF, 0x8000_0000, 0xFFFF_FFF7, 0xFFFF_FFF8, 0xFFFF_FFFF,
];
