//! The accessor battery (DESIGN 2.4): every public accessor of every
//! boot-information tag kind, each under its own catch_unwind, recorded as a
//! list of (name, value) pairs.  Values are address-free: slices and strings
//! are (offset from the owning tag, byte length, content hash).
use crate::*;
use multiboot2::*;
use multiboot2_common::MaybeDynSized as _;

pub use mbvcore::spec::{Rec, Val};

pub struct Bat<'c> {
    pub ctx: &'c mut Ctx,
    pub recs: Vec<Rec>,
    pub base: *const u8,
    /// call Debug formatters too
    pub debug: bool,
    /// call accessors doing arithmetic on two decoded values (DESIGN 6)
    pub derived: bool,
    /// go on polling an iterator after one of its calls panicked (the safety checks: a caught panic must not leave
    /// an object behind that hands out bytes outside the tag)
    pub resume: bool,
}

impl<'c> Bat<'c> {
    pub fn new(ctx: &'c mut Ctx, base: *const u8) -> Self {
        Bat { ctx, recs: Vec::new(), base, debug: true, derived: true, resume: false }
    }
    pub fn u(&mut self, name: &'static str, f: impl FnOnce() -> u64) {
        let v = match self.ctx.call(name, f) {
            Out::Val(v) => Val::U(v),
            Out::Panic => Val::Panic,
        };
        self.recs.push(Rec { name, val: v });
    }
    /// accessor returning a byte slice / str (already converted to bytes)
    pub fn s<'a>(&mut self, name: &'static str, f: impl FnOnce() -> Result<&'a [u8], u32>) {
        let base = self.base;
        let v = match self.ctx.call(name, f) {
            Out::Val(Ok(b)) => Val::S { off: (b.as_ptr() as usize as i64).wrapping_sub(base as usize as i64), len: b.len(), hash: hash::hash_bytes(b) },
            Out::Val(Err(c)) => Val::E(c),
            Out::Panic => Val::Panic,
        };
        self.recs.push(Rec { name, val: v });
    }
    pub fn dbg<T: core::fmt::Debug + ?Sized>(&mut self, name: &'static str, t: &T) {
        if !self.debug {
            return;
        }
        // Debug text is never compared with an expectation; its hash is part of the
        // transcript only (O5 / O8): same bytes => same text.
        let v = match self.ctx.call(name, || {
            let s = format!("{:?}", t);
            hash::hash_bytes(strip_addresses(&s).as_bytes())
        }) {
            Out::Val(h) => Val::U(h),
            Out::Panic => Val::Panic,
        };
        self.recs.push(Rec { name, val: v });
    }
}

/// Debug output contains raw addresses (`0x7f..`); blank every hex literal of
/// 9+ digits so that transcripts stay address-free.
pub fn strip_addresses(s: &str) -> String {
    let b = s.as_bytes();
    let mut out = String::with_capacity(s.len());
    let mut i = 0;
    while i < b.len() {
        if b[i] == b'0' && i + 1 < b.len() && b[i + 1] == b'x' {
            let mut j = i + 2;
            while j < b.len() && b[j].is_ascii_hexdigit() {
                j += 1;
            }
            if j - (i + 2) >= 9 {
                out.push_str("0xADDR");
                i = j;
                continue;
            }
        }
        out.push(b[i] as char);
        i += 1;
    }
    out
}

fn str_res<'a, E>(r: Result<&'a str, E>, code: impl FnOnce(E) -> u32) -> Result<&'a [u8], u32> {
    r.map(|s| s.as_bytes()).map_err(code)
}
fn se(e: StringError) -> u32 {
    match e {
        StringError::MissingNul(_) => 1,
        StringError::Utf8(_) => 2,
    }
}

fn as_u8s<T>(s: &[T]) -> &[u8] {
    unsafe { std::slice::from_raw_parts(s.as_ptr() as *const u8, std::mem::size_of_val(s)) }
}

macro_rules! common {
    ($b:expr, $t:expr) => {
        $b.u("header.typ", || u32::from($t.header().typ) as u64);
        $b.u("header.size", || $t.header().size as u64);
        $b.u("size_of_val", || std::mem::size_of_val($t) as u64);
        $b.u("as_bytes.len", || $t.as_bytes().len() as u64);
        $b.dbg("Debug", $t);
    };
}

pub fn cmdline(b: &mut Bat, t: &CommandLineTag) {
    common!(b, t);
    b.s("cmdline", || str_res(t.cmdline(), se));
}
pub fn bootloader(b: &mut Bat, t: &BootLoaderNameTag) {
    common!(b, t);
    b.s("name", || str_res(t.name(), se));
    b.u("typ", || u32::from(t.typ()) as u64);
    b.u("size", || t.size() as u64);
}
pub fn module(b: &mut Bat, t: &ModuleTag) {
    common!(b, t);
    b.u("start_address", || t.start_address() as u64);
    b.u("end_address", || t.end_address() as u64);
    if b.derived {
        b.u("module_size", || t.module_size() as u64);
    }
    b.s("cmdline", || str_res(t.cmdline(), se));
}
pub fn meminfo(b: &mut Bat, t: &BasicMemoryInfoTag) {
    common!(b, t);
    b.u("memory_lower", || t.memory_lower() as u64);
    b.u("memory_upper", || t.memory_upper() as u64);
}
pub fn bootdev(b: &mut Bat, t: &BootdevTag) {
    common!(b, t);
    b.u("biosdev", || t.biosdev() as u64);
    b.u("slice", || t.slice() as u64);
    b.u("part", || t.part() as u64);
}
pub fn mmap(b: &mut Bat, t: &MemoryMapTag) {
    common!(b, t);
    b.u("entry_size", || t.entry_size() as u64);
    b.u("entry_version", || t.entry_version() as u64);
    b.s("memory_areas", || Ok(as_u8s(t.memory_areas())));
    let derived = b.derived;
    if let Out::Val(areas) = b.ctx.call("memory_areas", || t.memory_areas()) {
        for a in areas.iter().take(6) {
            b.u("area.start_address", || a.start_address());
            b.u("area.size", || a.size());
            b.u("area.typ", || u32::from(a.typ()) as u64);
            if derived {
                b.u("area.end_address", || a.end_address());
            }
            b.dbg("area.Debug", a);
        }
    }
}
pub fn vbe(b: &mut Bat, t: &VBEInfoTag, touch_memory_model: bool) {
    b.u("header.typ", || u32::from(t.header().typ) as u64);
    b.u("header.size", || t.header().size as u64);
    b.u("size_of_val", || std::mem::size_of_val(t) as u64);
    b.u("mode", || t.mode() as u64);
    b.u("interface_segment", || t.interface_segment() as u64);
    b.u("interface_offset", || t.interface_offset() as u64);
    b.u("interface_length", || t.interface_length() as u64);
    if let Out::Val(c) = b.ctx.call("control_info", || t.control_info()) {
        b.u("control.signature", || u32::from_le_bytes(c.signature) as u64);
        b.u("control.version", || { c.version } as u64);
        b.u("control.oem_string_ptr", || { c.oem_string_ptr } as u64);
        b.u("control.capabilities", || { c.capabilities }.bits() as u64);
        b.u("control.mode_list_ptr", || { c.mode_list_ptr } as u64);
        b.u("control.total_memory", || { c.total_memory } as u64);
        b.u("control.oem_software_revision", || { c.oem_software_revision } as u64);
        b.u("control.oem_vendor_name_ptr", || { c.oem_vendor_name_ptr } as u64);
        b.u("control.oem_product_name_ptr", || { c.oem_product_name_ptr } as u64);
        b.u("control.oem_product_revision_ptr", || { c.oem_product_revision_ptr } as u64);
        b.dbg("control.Debug", &c);
    }
    // An undefined memory-model byte makes the by-value `VBEModeInfo` itself an
    // invalid value (known finding F15): it is only touched by the probe.
    if !touch_memory_model {
        return;
    }
    if let Out::Val(m) = b.ctx.call("mode_info", || t.mode_info()) {
        b.u("mode.mode_attributes", || { m.mode_attributes }.bits() as u64);
        b.u("mode.window_a_attributes", || m.window_a_attributes.bits() as u64);
        b.u("mode.window_b_attributes", || m.window_b_attributes.bits() as u64);
        b.u("mode.window_granularity", || { m.window_granularity } as u64);
        b.u("mode.window_size", || { m.window_size } as u64);
        b.u("mode.window_a_segment", || { m.window_a_segment } as u64);
        b.u("mode.window_b_segment", || { m.window_b_segment } as u64);
        b.u("mode.window_function_ptr", || { m.window_function_ptr } as u64);
        b.u("mode.pitch", || { m.pitch } as u64);
        b.u("mode.resolution.0", || { m.resolution }.0 as u64);
        b.u("mode.resolution.1", || { m.resolution }.1 as u64);
        b.u("mode.character_size.0", || m.character_size.0 as u64);
        b.u("mode.character_size.1", || m.character_size.1 as u64);
        b.u("mode.number_of_planes", || m.number_of_planes as u64);
        b.u("mode.bpp", || m.bpp as u64);
        b.u("mode.number_of_banks", || m.number_of_banks as u64);
        if touch_memory_model {
            b.u("mode.memory_model", || m.memory_model as u8 as u64);
        }
        b.u("mode.bank_size", || m.bank_size as u64);
        b.u("mode.number_of_image_pages", || m.number_of_image_pages as u64);
        b.u("mode.red_field.size", || m.red_field.size as u64);
        b.u("mode.red_field.position", || m.red_field.position as u64);
        b.u("mode.green_field.size", || m.green_field.size as u64);
        b.u("mode.green_field.position", || m.green_field.position as u64);
        b.u("mode.blue_field.size", || m.blue_field.size as u64);
        b.u("mode.blue_field.position", || m.blue_field.position as u64);
        b.u("mode.reserved_field.size", || m.reserved_field.size as u64);
        b.u("mode.reserved_field.position", || m.reserved_field.position as u64);
        b.u("mode.direct_color_attributes", || m.direct_color_attributes.bits() as u64);
        b.u("mode.framebuffer_base_ptr", || { m.framebuffer_base_ptr } as u64);
        b.u("mode.offscreen_memory_offset", || { m.offscreen_memory_offset } as u64);
        b.u("mode.offscreen_memory_size", || { m.offscreen_memory_size } as u64);
        if touch_memory_model {
            b.dbg("mode.Debug", &m);
        }
    }
    if touch_memory_model {
        b.dbg("Debug", t);
    }
}
pub fn framebuffer(b: &mut Bat, t: &FramebufferTag) {
    common!(b, t);
    b.u("address", || t.address());
    b.u("pitch", || t.pitch() as u64);
    b.u("width", || t.width() as u64);
    b.u("height", || t.height() as u64);
    b.u("bpp", || t.bpp() as u64);
    let r = b.ctx.call("buffer_type", || t.buffer_type());
    match r {
        Out::Panic => b.recs.push(Rec { name: "buffer_type", val: Val::Panic }),
        Out::Val(Err(e)) => {
            let text = format!("{}", e);
            let n: u32 = text.rsplit(' ').next().and_then(|x| x.parse().ok()).unwrap_or(0xFFFF);
            b.recs.push(Rec { name: "buffer_type", val: Val::E(0x100 + n) });
        }
        Out::Val(Ok(FramebufferType::Indexed { palette })) => {
            b.recs.push(Rec { name: "buffer_type", val: Val::U(0) });
            b.s("palette", || Ok(as_u8s(palette)));
            for c in palette.iter().take(4) {
                b.u("color", || (c.red as u64) << 16 | (c.green as u64) << 8 | c.blue as u64);
            }
        }
        Out::Val(Ok(FramebufferType::RGB { red, green, blue })) => {
            b.recs.push(Rec { name: "buffer_type", val: Val::U(1) });
            b.u("red", || (red.position as u64) << 8 | red.size as u64);
            b.u("green", || (green.position as u64) << 8 | green.size as u64);
            b.u("blue", || (blue.position as u64) << 8 | blue.size as u64);
        }
        Out::Val(Ok(FramebufferType::Text)) => b.recs.push(Rec { name: "buffer_type", val: Val::U(2) }),
    }
}
/// `names`: resolve section names (only when the harness built the string table)
pub fn elf(b: &mut Bat, t: &ElfSectionsTag, names: bool) {
    common!(b, t);
    b.u("number_of_sections", || t.number_of_sections() as u64);
    b.u("entry_size", || t.entry_size() as u64);
    b.u("shndx", || t.shndx() as u64);
    let derived = b.derived;
    if let Out::Val(mut it) = b.ctx.call("sections", || t.sections()) {
        b.dbg("sections.Debug", &it);
        for _ in 0..10 {
            b.u("sections.len", || it.len() as u64);
            match b.ctx.call("sections.next", || it.next()) {
                Out::Panic => {
                    b.recs.push(Rec { name: "sections.next", val: Val::Panic });
                    if b.resume {
                        b.dbg("sections.Debug(resumed)", &it);
                        let mut cl = it.clone();
                        for which in 0..2 {
                            for _ in 0..3 {
                                let r = b.ctx.call("sections.next(resumed)", || if which == 0 { it.next() } else { cl.next() });
                                match r {
                                    Out::Val(Some(s)) => {
                                        b.recs.push(Rec { name: "sections.resumed", val: Val::U(1) });
                                        b.u("section.type_raw", || s.section_type_raw() as u64);
                                        b.u("section.flags", || s.flags().bits());
                                        b.u("section.addralign", || s.addralign());
                                    }
                                    Out::Val(None) => {
                                        b.recs.push(Rec { name: "sections.resumed", val: Val::E(0) });
                                        break;
                                    }
                                    Out::Panic => b.recs.push(Rec { name: "sections.resumed", val: Val::Panic }),
                                }
                            }
                        }
                    }
                    break;
                }
                Out::Val(None) => {
                    b.recs.push(Rec { name: "sections.next", val: Val::E(0) });
                    break;
                }
                Out::Val(Some(s)) => {
                    b.recs.push(Rec { name: "sections.next", val: Val::U(1) });
                    b.u("section.type_raw", || s.section_type_raw() as u64);
                    b.u("section.type", || s.section_type() as u64);
                    b.u("section.flags", || s.flags().bits());
                    b.u("section.start_address", || s.start_address());
                    b.u("section.size", || s.size());
                    b.u("section.addralign", || s.addralign());
                    b.u("section.is_allocated", || s.is_allocated() as u64);
                    if derived {
                        b.u("section.end_address", || s.end_address());
                    }
                    if names {
                        // external memory: offset is relative to the string table, not the tag
                        let v = match b.ctx.call("section.name", || s.name().map(|n| (n.len(), hash::hash_bytes(n.as_bytes())))) {
                            Out::Val(Ok((len, h))) => Val::S { off: 0, len, hash: h },
                            Out::Val(Err(_)) => Val::E(2),
                            Out::Panic => Val::Panic,
                        };
                        b.recs.push(Rec { name: "section.name", val: v });
                    }
                }
            }
        }
    } else {
        b.recs.push(Rec { name: "sections", val: Val::Panic });
    }
}
pub fn apm(b: &mut Bat, t: &ApmTag) {
    common!(b, t);
    b.u("version", || t.version() as u64);
    b.u("cseg", || t.cseg() as u64);
    b.u("offset", || t.offset() as u64);
    b.u("cset_16", || t.cset_16() as u64);
    b.u("dseg", || t.dseg() as u64);
    b.u("flags", || t.flags() as u64);
    b.u("cseg_len", || t.cseg_len() as u64);
    b.u("cseg_16_len", || t.cseg_16_len() as u64);
    b.u("dseg_len", || t.dseg_len() as u64);
}
pub fn efi32(b: &mut Bat, t: &EFISdt32Tag) {
    common!(b, t);
    b.u("sdt_address", || t.sdt_address() as u64);
}
pub fn efi64(b: &mut Bat, t: &EFISdt64Tag) {
    common!(b, t);
    b.u("sdt_address", || t.sdt_address() as u64);
}
pub fn ih32(b: &mut Bat, t: &EFIImageHandle32Tag) {
    common!(b, t);
    b.u("image_handle", || t.image_handle() as u64);
}
pub fn ih64(b: &mut Bat, t: &EFIImageHandle64Tag) {
    common!(b, t);
    b.u("image_handle", || t.image_handle() as u64);
}
pub fn smbios(b: &mut Bat, t: &SmbiosTag) {
    common!(b, t);
    b.u("major", || t.major() as u64);
    b.u("minor", || t.minor() as u64);
    b.s("tables", || Ok(t.tables()));
}
pub fn rsdp1(b: &mut Bat, t: &RsdpV1Tag) {
    common!(b, t);
    b.s("signature", || str_res(t.signature(), |_| 2));
    b.u("checksum_is_valid", || t.checksum_is_valid() as u64);
    b.s("oem_id", || str_res(t.oem_id(), |_| 2));
    b.u("revision", || t.revision() as u64);
    b.u("rsdt_address", || t.rsdt_address() as u64);
}
pub fn rsdp2(b: &mut Bat, t: &RsdpV2Tag) {
    common!(b, t);
    b.s("signature", || str_res(t.signature(), |_| 2));
    b.u("checksum_is_valid", || t.checksum_is_valid() as u64);
    b.s("oem_id", || str_res(t.oem_id(), |_| 2));
    b.u("revision", || t.revision() as u64);
    b.u("xsdt_address", || t.xsdt_address() as u64);
    b.u("ext_checksum", || t.ext_checksum() as u64);
}
pub fn network(b: &mut Bat, t: &NetworkTag) {
    common!(b, t);
    b.u("metadata", || ptr_meta::metadata(t as *const NetworkTag) as u64);
}
pub fn efi_mmap(b: &mut Bat, t: &EFIMemoryMapTag) {
    common!(b, t);
    let base = b.base;
    if let Out::Val(mut it) = b.ctx.call("memory_areas", || t.memory_areas()) {
        b.dbg("memory_areas.Debug", &it);
        for _ in 0..8 {
            b.u("areas.len", || it.len() as u64);
            match b.ctx.call("areas.next", || it.next()) {
                Out::Panic => {
                    b.recs.push(Rec { name: "areas.next", val: Val::Panic });
                    if b.resume {
                        // the same iterator, a clone of it and its Debug output after the caught panic
                        b.dbg("memory_areas.Debug(resumed)", &it);
                        let mut cl = it.clone();
                        for which in 0..2 {
                            for _ in 0..3 {
                                let r = b.ctx.call("areas.next(resumed)", || if which == 0 { it.next() } else { cl.next() });
                                match r {
                                    Out::Val(Some(d)) => {
                                        b.recs.push(Rec { name: "areas.resumed", val: Val::S { off: rel(d, base), len: std::mem::size_of_val(d), hash: 0 } });
                                        b.u("desc.ty", || d.ty.0 as u64);
                                        b.u("desc.att", || d.att.bits());
                                    }
                                    Out::Val(None) => {
                                        b.recs.push(Rec { name: "areas.resumed", val: Val::E(0) });
                                        break;
                                    }
                                    Out::Panic => b.recs.push(Rec { name: "areas.resumed", val: Val::Panic }),
                                }
                            }
                        }
                    }
                    break;
                }
                Out::Val(None) => {
                    b.recs.push(Rec { name: "areas.next", val: Val::E(0) });
                    break;
                }
                Out::Val(Some(d)) => {
                    b.recs.push(Rec { name: "areas.next", val: Val::S { off: rel(d, base), len: std::mem::size_of_val(d), hash: 0 } });
                    b.u("desc.ty", || d.ty.0 as u64);
                    b.u("desc.phys_start", || d.phys_start);
                    b.u("desc.virt_start", || d.virt_start);
                    b.u("desc.page_count", || d.page_count);
                    b.u("desc.att", || d.att.bits());
                }
            }
        }
    } else {
        b.recs.push(Rec { name: "memory_areas", val: Val::Panic });
    }
}
pub fn efi_bs(b: &mut Bat, t: &EFIBootServicesNotExitedTag) {
    common!(b, t);
}
pub fn load_base(b: &mut Bat, t: &ImageLoadPhysAddrTag) {
    common!(b, t);
    b.u("load_base_addr", || t.load_base_addr() as u64);
}
pub fn end(b: &mut Bat, t: &EndTag) {
    common!(b, t);
}
pub fn generic(b: &mut Bat, t: &DynSizedStructure<TagHeader>) {
    b.u("header.typ", || u32::from(t.header().typ) as u64);
    b.u("header.size", || t.header().size as u64);
    b.u("size_of_val", || std::mem::size_of_val(t) as u64);
    b.s("payload", || Ok(t.payload()));
    b.dbg("Debug", t);
}

#[derive(Clone, Copy, Debug)]
pub struct BatOpts {
    pub vbe_memory_model: bool,
    pub elf_names: bool,
}

/// Cast a generic tag to the typed view of `kind` and run that kind's battery.
/// The cast itself is one recorded call ("cast").
pub fn tag_level(b: &mut Bat, kind: u32, g: &DynSizedStructure<TagHeader>, o: BatOpts) {
    use spec::bi::*;
    macro_rules! go {
        ($t:ty, $f:expr) => {{
            match b.ctx.call("cast", || g.cast::<$t>()) {
                Out::Val(t) => {
                    b.recs.push(Rec { name: "cast", val: Val::U(rel(t, b.base) as u64) });
                    let f: &dyn Fn(&mut Bat, &$t) = &$f;
                    f(b, t)
                }
                Out::Panic => b.recs.push(Rec { name: "cast", val: Val::Panic }),
            }
        }};
    }
    match kind {
        END => go!(EndTag, |b, t| end(b, t)),
        CMDLINE => go!(CommandLineTag, |b, t| cmdline(b, t)),
        BOOTLOADER => go!(BootLoaderNameTag, |b, t| bootloader(b, t)),
        MODULE => go!(ModuleTag, |b, t| module(b, t)),
        MEMINFO => go!(BasicMemoryInfoTag, |b, t| meminfo(b, t)),
        BOOTDEV => go!(BootdevTag, |b, t| bootdev(b, t)),
        MMAP => go!(MemoryMapTag, |b, t| mmap(b, t)),
        VBE => go!(VBEInfoTag, |b, t| vbe(b, t, o.vbe_memory_model)),
        FRAMEBUFFER => go!(FramebufferTag, |b, t| framebuffer(b, t)),
        ELF => go!(ElfSectionsTag, |b, t| elf(b, t, o.elf_names)),
        APM => go!(ApmTag, |b, t| apm(b, t)),
        EFI32 => go!(EFISdt32Tag, |b, t| efi32(b, t)),
        EFI64 => go!(EFISdt64Tag, |b, t| efi64(b, t)),
        SMBIOS => go!(SmbiosTag, |b, t| smbios(b, t)),
        ACPI1 => go!(RsdpV1Tag, |b, t| rsdp1(b, t)),
        ACPI2 => go!(RsdpV2Tag, |b, t| rsdp2(b, t)),
        NETWORK => go!(NetworkTag, |b, t| network(b, t)),
        EFI_MMAP => go!(EFIMemoryMapTag, |b, t| efi_mmap(b, t)),
        EFI_BS => go!(EFIBootServicesNotExitedTag, |b, t| efi_bs(b, t)),
        EFI32_IH => go!(EFIImageHandle32Tag, |b, t| ih32(b, t)),
        EFI64_IH => go!(EFIImageHandle64Tag, |b, t| ih64(b, t)),
        LOAD_BASE => go!(ImageLoadPhysAddrTag, |b, t| load_base(b, t)),
        _ => generic(b, g),
    }
}

/// Region-level: the typed getter of `kind` on a loaded boot information,
/// then that kind's battery.  Records "getter" = offset of the returned tag
/// relative to the region base, or E(0) when the getter returns nothing.
pub fn getter_level(b: &mut Bat, kind: u32, bi: &BootInformation, rbase: *const u8, o: BatOpts) {
    use spec::bi::*;
    macro_rules! go {
        ($get:expr, $t:ty, $f:expr) => {{
            match b.ctx.call("getter", || $get) {
                Out::Val(Some(t)) => {
                    let t: &$t = t;
                    b.recs.push(Rec { name: "getter", val: Val::U(rel(t, rbase) as u64) });
                    b.base = t as *const $t as *const u8;
                    let f: &dyn Fn(&mut Bat, &$t) = &$f;
                    f(b, t)
                }
                Out::Val(None) => b.recs.push(Rec { name: "getter", val: Val::E(0) }),
                Out::Panic => b.recs.push(Rec { name: "getter", val: Val::Panic }),
            }
        }};
    }
    match kind {
        END => go!(bi.get_tag::<EndTag>(), EndTag, |b, t| end(b, t)),
        CMDLINE => go!(bi.command_line_tag(), CommandLineTag, |b, t| cmdline(b, t)),
        BOOTLOADER => go!(bi.boot_loader_name_tag(), BootLoaderNameTag, |b, t| bootloader(b, t)),
        MODULE => go!(bi.module_tags().next(), ModuleTag, |b, t| module(b, t)),
        MEMINFO => go!(bi.basic_memory_info_tag(), BasicMemoryInfoTag, |b, t| meminfo(b, t)),
        BOOTDEV => go!(bi.bootdev_tag(), BootdevTag, |b, t| bootdev(b, t)),
        MMAP => go!(bi.memory_map_tag(), MemoryMapTag, |b, t| mmap(b, t)),
        VBE => go!(bi.vbe_info_tag(), VBEInfoTag, |b, t| vbe(b, t, o.vbe_memory_model)),
        FRAMEBUFFER => {
            // the public getter wraps the tag in a Result carrying the unknown type byte
            match b.ctx.call("getter", || bi.framebuffer_tag()) {
                Out::Val(Some(Ok(t))) => {
                    b.recs.push(Rec { name: "getter", val: Val::U(rel(t, rbase) as u64) });
                    b.base = t as *const FramebufferTag as *const u8;
                    framebuffer(b, t)
                }
                Out::Val(Some(Err(e))) => {
                    let text = format!("{}", e);
                    let n: u32 = text.rsplit(' ').next().and_then(|x| x.parse().ok()).unwrap_or(0xFFFF);
                    b.recs.push(Rec { name: "getter", val: Val::E(0x100 + n) });
                }
                Out::Val(None) => b.recs.push(Rec { name: "getter", val: Val::E(0) }),
                Out::Panic => b.recs.push(Rec { name: "getter", val: Val::Panic }),
            }
        }
        ELF => go!(bi.elf_sections_tag(), ElfSectionsTag, |b, t| elf(b, t, o.elf_names)),
        APM => go!(bi.apm_tag(), ApmTag, |b, t| apm(b, t)),
        EFI32 => go!(bi.efi_sdt32_tag(), EFISdt32Tag, |b, t| efi32(b, t)),
        EFI64 => go!(bi.efi_sdt64_tag(), EFISdt64Tag, |b, t| efi64(b, t)),
        SMBIOS => go!(bi.smbios_tag(), SmbiosTag, |b, t| smbios(b, t)),
        ACPI1 => go!(bi.rsdp_v1_tag(), RsdpV1Tag, |b, t| rsdp1(b, t)),
        ACPI2 => go!(bi.rsdp_v2_tag(), RsdpV2Tag, |b, t| rsdp2(b, t)),
        NETWORK => go!(bi.network_tag(), NetworkTag, |b, t| network(b, t)),
        EFI_MMAP => go!(bi.efi_memory_map_tag(), EFIMemoryMapTag, |b, t| efi_mmap(b, t)),
        EFI_BS => go!(bi.efi_bs_not_exited_tag(), EFIBootServicesNotExitedTag, |b, t| efi_bs(b, t)),
        EFI32_IH => go!(bi.efi_ih32_tag(), EFIImageHandle32Tag, |b, t| ih32(b, t)),
        EFI64_IH => go!(bi.efi_ih64_tag(), EFIImageHandle64Tag, |b, t| ih64(b, t)),
        LOAD_BASE => go!(bi.load_base_addr_tag(), ImageLoadPhysAddrTag, |b, t| load_base(b, t)),
        _ => {}
    }
}

/// Feed a record list into the transcript of the current leaf.
pub fn feed(ctx: &mut Ctx, recs: &[Rec]) {
    let uniform = ctx.uniform();
    for r in recs {
        if uniform && r.name.contains("Debug") {
            continue; // Debug text may contain decimal addresses
        }
        ctx.tx.str(r.name);
        match &r.val {
            Val::U(v) => ctx.ob(r.name, *v),
            Val::S { off, len, hash } => {
                ctx.ob(r.name, *off as u64);
                ctx.tx.u64(*len as u64);
                ctx.tx.u64(*hash);
            }
            Val::E(c) => ctx.ob(r.name, 0xE000_0000 + *c as u64),
            Val::Panic => ctx.ob(r.name, 0xDEAD_0000),
        }
    }
}
