//! C18 - EFI memory-map iteration honours descriptor stride, count and bounds.
use mbvlib::spec::bi;
use mbvlib::spec::*;
use mbvlib::*;
use multiboot2::{DynSizedStructure, EFIMemoryDesc, EFIMemoryMapTag, TagHeader};

type Generic = DynSizedStructure<TagHeader>;

fn valid(d: u32, ver: u32, l: usize) -> bool {
    ver == 1 && d >= 40 && d % 8 == 0 && l % d as usize == 0
}

fn image(d: u32, ver: u32, l: usize) -> Vec<u8> {
    let map: Vec<u8> = (0..l).map(|i| marker(i, 8)).collect();
    let mut v = bi::enc_efi_mmap(d, ver, &map);
    while v.len() % 8 != 0 {
        v.push(0xF3);
    }
    v
}

struct Desc {
    off: i64,
    ty: u32,
    phys: u64,
    virt: u64,
    pages: u64,
    att: u64,
}
fn obs_desc(e: &EFIMemoryDesc, map: *const u8) -> Desc {
    Desc { off: rel(e, map), ty: e.ty.0, phys: e.phys_start, virt: e.virt_start, pages: e.page_count, att: e.att.bits() }
}

/// Check one yielded descriptor.  `k` = its index in the reference walk.
fn check_desc(ctx: &mut Ctx, de: &Desc, k: usize, d: u32, ver: u32, l: usize, img: &[u8], is_valid: bool) -> bool {
    ctx.ob("desc.off", de.off as u64);
    ctx.ob("desc.ty", de.ty as u64);
    ctx.ob("desc.phys", de.phys);
    // O3: never overlapping the end of the tag, never misaligned - for every input
    if de.off < 0 || de.off as usize + 40 > l || de.off % 8 != 0 {
        ctx.violation(&format!("c18/descriptor-outside-or-misaligned/{}", if is_valid { "valid" } else { "invalid-input" }), || {
            format!("descriptor #{} at map offset {} (desc_size {}, version {}, map length {}): a 40-byte descriptor must lie inside the map and be 8-aligned", k, de.off, d, ver, l)
        });
        return false;
    }
    if !is_valid {
        ctx.violation("c18/no-refusal", || format!("descriptor #{} yielded although (desc_size {}, version {}, map length {}) is not a valid combination and must be rejected by a controlled panic", k, d, ver, l));
        return false;
    }
    let m = &img[16..16 + l];
    let o = k * d as usize;
    if de.off as usize != o {
        ctx.violation("c18/wrong-stride", || format!("descriptor #{} at map offset {}, expected {} x {} = {}", k, de.off, k, d, o));
        return false;
    }
    let want = (rd32(m, o), rd64(m, o + 8), rd64(m, o + 16), rd64(m, o + 24), rd64(m, o + 32));
    if (de.ty, de.phys, de.virt, de.pages, de.att) != want {
        ctx.violation("c18/wrong-decode", || format!("descriptor #{}: got {:x?}, stored {:x?}", k, (de.ty, de.phys, de.virt, de.pages, de.att), want));
        return false;
    }
    true
}

/// Canonical program: construct the iterator, then next() to the end with
/// len()/size_hint() after every step, Debug and a clone taken mid-walk.
fn canonical(ctx: &mut Ctx, arena: &Arena, d: u32, ver: u32, l: usize, img: &[u8]) {
    let ok = valid(d, ver, l);
    let n = if ok { l / d as usize } else { 0 };
    ctx.under_fills("c18/o5", |ctx, fill| {
        arena.fill(fill);
        let p = arena.place_right(img);
        let slice: &[u8] = unsafe { std::slice::from_raw_parts(p, img.len()) };
        let map = unsafe { p.add(16) };
        let tag = Generic::ref_from_slice(slice).unwrap().cast::<EFIMemoryMapTag>();
        let it = ctx.call("memory_areas", || tag.memory_areas());
        let Out::Val(mut it) = it else {
            ctx.ob("areas.panic", 1);
            if ok {
                ctx.violation("c18/spurious-panic/memory_areas", || format!("memory_areas() panicked for the valid combination desc_size {} version {} map length {}", d, ver, l));
            } else {
                ctx.class("efi:refused-at-construction");
            }
            return;
        };
        // Debug of the tag and of the fresh iterator: must terminate without crash
        let dbg = ctx.call("Debug(iter)", || format!("{:?}", it).len());
        if let (Out::Val(n), true) = (&dbg, ok) {
            ctx.ob("dbg.len", *n as u64);
        }
        if dbg.is_panic() && ok {
            ctx.violation("c18/spurious-panic/debug", || "Debug of the iterator panicked on a valid map".into());
        }
        let mut k = 0usize;
        let mut clone_mid = None;
        loop {
            if k > l / 8 + 2 {
                ctx.violation("c18/termination", || "iterator yields more descriptors than 8-byte slots exist".into());
                return;
            }
            if ok {
                // remaining length before this step
                match ctx.call("len", || it.len()) {
                    Out::Val(x) => {
                        ctx.ob("len", x as u64);
                        if x != n - k {
                            ctx.violation("c18/len", || format!("len() = {} after {} of {} items; {} still to come", x, k, n, n - k));
                        }
                    }
                    Out::Panic => ctx.violation("c18/spurious-panic/len", || "len() panicked on a valid map".into()),
                }
                match ctx.call("size_hint", || it.size_hint()) {
                    Out::Val((lo, hi)) => {
                        // the type is an ExactSizeIterator: both bounds are the number of items to come
                        if lo != n - k || hi != Some(n - k) {
                            ctx.violation("c18/size_hint", || format!("size_hint() = ({}, {:?}) with {} items still to come", lo, hi, n - k));
                        }
                    }
                    Out::Panic => ctx.violation("c18/spurious-panic/size_hint", || "size_hint() panicked on a valid map".into()),
                }
            }
            if k == 1 {
                clone_mid = ctx.call("clone", || it.clone()).val();
            }
            let r = ctx.call("next", || it.next().map(|e| obs_desc(e, map)));
            match r {
                Out::Val(Some(de)) => {
                    if !check_desc(ctx, &de, k, d, ver, l, img, ok) {
                        return;
                    }
                    if k >= n {
                        ctx.violation("c18/extra-item", || format!("descriptor #{} yielded, the map holds {}", k, n));
                        return;
                    }
                    k += 1;
                }
                Out::Val(None) => {
                    ctx.ob("none_at", k as u64);
                    if !ok {
                        ctx.violation("c18/no-refusal", || format!("iteration over (desc_size {}, version {}, map length {}) ended with None; the combination is invalid and must be rejected by a controlled panic", d, ver, l));
                    } else if k != n {
                        ctx.violation("c18/short", || format!("iteration ended after {} of {} descriptors", k, n));
                    } else {
                        ctx.class("efi:complete");
                    }
                    break;
                }
                Out::Panic => {
                    ctx.ob("panic_at", k as u64);
                    if ok {
                        ctx.violation("c18/spurious-panic/next", || format!("next() panicked at item {} of a valid map", k));
                    } else if k == 0 {
                        ctx.class("efi:refused-at-first-next");
                    }
                    return;
                }
            }
        }
        // the clone taken after one item reproduces the suffix
        if let Some(mut c) = clone_mid {
            let mut j = 1;
            while let Out::Val(Some(de)) = ctx.call("next(clone)", || c.next().map(|e| obs_desc(e, map))) {
                if !check_desc(ctx, &de, j, d, ver, l, img, ok) || j > n {
                    return;
                }
                j += 1;
            }
            if j != n.max(1) {
                ctx.violation("c18/clone-suffix", || format!("clone taken after 1 item ended at item {}, expected {}", j, n));
            }
        }
        // clone_from across two tags: an iterator over this map, overwritten in place with an iterator over another
        // valid map (2 resp. 4 descriptors of 48 bytes at the left end of the arena) that has yielded one item, goes
        // on exactly like that one - and the other way round
        if ok && l + 400 < arena.len() {
            for other_n in [2usize, 4] {
                let mut other = vec![0u8; 16 + 48 * other_n];
                for (i, b) in other.iter_mut().enumerate() {
                    *b = marker(i, 87);
                }
                wr32(&mut other, 0, 17);
                wr32(&mut other, 4, (16 + 48 * other_n) as u32);
                wr32(&mut other, 8, 48);
                wr32(&mut other, 12, 1);
                let q = arena.place_at(0, &other);
                let oslice: &[u8] = unsafe { std::slice::from_raw_parts(q, other.len()) };
                let otag = Generic::ref_from_slice(oslice).unwrap().cast::<EFIMemoryMapTag>();
                let omap = unsafe { q.add(16) } as usize;
                let pmap = map as usize;
                let r = ctx.call("clone_from", || {
                    let mut a = tag.memory_areas();
                    let mut b = otag.memory_areas();
                    let _ = b.next();
                    a.clone_from(&b);
                    let la = a.len();
                    let ra: Vec<usize> = a.map(|e| e as *const _ as usize - omap).collect();
                    // and back: the other map's iterator takes over this map's iterator after one item
                    let mut c = otag.memory_areas();
                    let mut d2 = tag.memory_areas();
                    let _ = d2.next();
                    c.clone_from(&d2);
                    let lc = c.len();
                    let rc: Vec<usize> = c.take(8).map(|e| (e as *const _ as usize).wrapping_sub(pmap)).collect();
                    (la, ra, lc, rc)
                });
                match r {
                    Out::Val((la, ra, lc, rc)) => {
                        let want_a: Vec<usize> = (1..other_n).map(|i| 48 * i).collect();
                        let want_c: Vec<usize> = (1..n).take(8).map(|i| d as usize * i).collect();
                        if la != other_n - 1 || ra != want_a || lc != n.saturating_sub(1) || rc != want_c {
                            ctx.violation("c18/clone-from", || format!("after clone_from an iterator reports len {} and yields descriptors at {:?} (source: {} of {} descriptors of 48 bytes left); the reverse reports len {} and yields {:?} (source: {} of {} descriptors of {} bytes left)", la, ra, other_n - 1, other_n, lc, rc, n.saturating_sub(1), n, d));
                        }
                    }
                    Out::Panic => ctx.violation("c18/spurious-panic/clone-from", || "clone_from between iterators of two valid maps panicked".into()),
                }
            }
        }
        // Debug of the tag itself
        let r = ctx.call("Debug(tag)", || format!("{:?}", tag).len());
        if r.is_panic() && ok {
            ctx.violation("c18/spurious-panic/debug-tag", || "Debug of the tag panicked on a valid map".into());
        }
    });
}

#[derive(Clone, Copy, Debug, PartialEq, Eq)]
enum Op {
    Next(u8),
    Len(u8),
    Hint(u8),
    Fmt(u8),
    Clone(u8),
    /// Iterator::nth(k): an adapter the type may override
    Nth(u8, u8),
    /// count(), last() and fold() on clones of the handle (the handle itself is not consumed): adapters the type may
    /// override, asked in whatever state the handle is in
    Tail(u8),
}

fn gen_program(ch: &mut Chooser, depth: usize) -> Vec<Op> {
    let mut live = 1u8;
    let mut prog = vec![];
    for _ in 0..depth {
        let mut menu: Vec<Option<Op>> = vec![None];
        for h in 0..live {
            menu.push(Some(Op::Next(h)));
            menu.push(Some(Op::Len(h)));
            menu.push(Some(Op::Hint(h)));
            menu.push(Some(Op::Fmt(h)));
            menu.push(Some(Op::Nth(h, 1)));
            menu.push(Some(Op::Nth(h, 7)));
            menu.push(Some(Op::Nth(h, 255)));
            menu.push(Some(Op::Tail(h)));
        }
        if live < 2 {
            menu.push(Some(Op::Clone(0)));
        }
        match *ch.pick_from(&menu) {
            None => break,
            Some(op) => {
                if let Op::Clone(_) = op {
                    live += 1;
                }
                prog.push(op);
            }
        }
    }
    prog
}

fn history(ctx: &mut Ctx, arena: &Arena, d: u32, ver: u32, l: usize, img: &[u8], prog: &[Op]) {
    let ok = valid(d, ver, l);
    let n = if ok { l / d as usize } else { 0 };
    arena.fill(arena::FILL_A);
    let p = arena.place_right(img);
    let slice: &[u8] = unsafe { std::slice::from_raw_parts(p, img.len()) };
    let map = unsafe { p.add(16) };
    let tag = Generic::ref_from_slice(slice).unwrap().cast::<EFIMemoryMapTag>();
    let Out::Val(it0) = ctx.call("memory_areas", || tag.memory_areas()) else {
        if ok {
            ctx.violation("c18/spurious-panic/memory_areas", || "memory_areas() panicked on a valid map".into());
        }
        ctx.class("history:refused");
        return;
    };
    let mut real = vec![Some(it0)];
    let mut model: Vec<usize> = vec![0];
    let mut sh = H64::new();
    sh.u64(d as u64);
    sh.u64(ver as u64);
    sh.u64(l as u64);
    for (step, op) in prog.iter().enumerate() {
        match *op {
            Op::Clone(h) => {
                let c = real[h as usize].as_ref().map(|x| x.clone());
                real.push(c);
                model.push(model[h as usize]);
                ctx.transitions += 1;
            }
            Op::Next(h) => {
                let h = h as usize;
                let Some(it) = real[h].as_mut() else { continue };
                let r = ctx.call("next", || it.next().map(|e| obs_desc(e, map)));
                ctx.ob("h.next.outcome", match &r { Out::Panic => 1, Out::Val(None) => 2, Out::Val(Some(_)) => 3 });
                match r {
                    Out::Val(Some(de)) => {
                        if !check_desc(ctx, &de, model[h], d, ver, l, img, ok) {
                            return;
                        }
                        if model[h] >= n {
                            ctx.violation("c18/history/extra-item", || format!("step {} {:?}: item beyond the {} descriptors", step, op, n));
                            return;
                        }
                        model[h] += 1;
                    }
                    Out::Val(None) => {
                        if !ok {
                            ctx.violation("c18/no-refusal", || format!("step {}: None on an invalid combination (desc_size {}, version {}, length {})", step, d, ver, l));
                            return;
                        }
                        if model[h] != n {
                            ctx.violation("c18/history/early-none", || format!("step {} {:?}: None after {} of {} items", step, op, model[h], n));
                            return;
                        }
                    }
                    Out::Panic => {
                        if ok {
                            ctx.violation("c18/spurious-panic/next", || format!("step {}: next() panicked on a valid map", step));
                            return;
                        }
                        real[h] = None;
                    }
                }
            }
            Op::Nth(h, kk) => {
                let h = h as usize;
                // 255 stands for the largest argument there is
                let kk = if kk == 255 { usize::MAX } else { kk as usize };
                let Some(it) = real[h].as_mut() else { continue };
                let r = ctx.call("nth", || it.nth(kk).map(|e| obs_desc(e, map)));
                ctx.ob("h.nth.outcome", match &r { Out::Panic => 1, Out::Val(None) => 2, Out::Val(Some(_)) => 3 });
                match r {
                    Out::Val(Some(de)) => {
                        let idx = model[h].saturating_add(kk);
                        if !ok || idx >= n {
                            ctx.violation("c18/history/nth-extra-item", || format!("step {} {:?}: nth({}) yields an item with {} of {} consumed", step, op, kk, model[h], n));
                            return;
                        }
                        if !check_desc(ctx, &de, idx, d, ver, l, img, ok) {
                            return;
                        }
                        model[h] = idx + 1;
                    }
                    Out::Val(None) => {
                        if !ok {
                            ctx.violation("c18/no-refusal", || format!("step {}: nth() returned None on an invalid combination", step));
                            return;
                        }
                        if model[h].saturating_add(kk) < n {
                            ctx.violation("c18/history/nth-early-none", || format!("step {} {:?}: nth({}) = None with {} of {} consumed", step, op, kk, model[h], n));
                            return;
                        }
                        model[h] = n;
                    }
                    Out::Panic => {
                        if ok {
                            ctx.violation("c18/spurious-panic/nth", || format!("step {}: nth() panicked on a valid map", step));
                            return;
                        }
                        real[h] = None;
                    }
                }
            }
            Op::Tail(h) => {
                let h = h as usize;
                let Some(it) = real[h].as_ref() else { continue };
                let r = ctx.call("count/last/fold on clones", || {
                    let cnt = it.clone().count();
                    let last = it.clone().last().map(|e| obs_desc(e, map));
                    let folded: Vec<i64> = it.clone().fold(vec![], |mut v, e| { v.push(rel(e, map)); v });
                    (cnt, last, folded)
                });
                ctx.ob("h.tail.outcome", if r.is_panic() { 1 } else { 2 });
                match r {
                    Out::Val((cnt, last, folded)) => {
                        ctx.ob("tail.count", cnt as u64);
                        if !ok {
                            ctx.violation("c18/no-refusal", || format!("step {}: count()/last()/fold() returned normally on an invalid combination", step));
                            return;
                        }
                        let rem = n - model[h].min(n);
                        let want: Vec<i64> = (model[h].min(n)..n).map(|k| (k * d as usize) as i64).collect();
                        if cnt != rem || folded != want || last.as_ref().map(|x| x.off) != want.last().copied() {
                            ctx.violation("c18/history/adapters", || format!("step {} {:?}: with {} of {} descriptors consumed, count() = {}, last() at {:?}, fold() sees offsets {:?}; expected {} items at {:?}", step, op, model[h], n, cnt, last.as_ref().map(|x| x.off), folded, rem, want));
                            return;
                        }
                        if let Some(de) = last {
                            if !check_desc(ctx, &de, n - 1, d, ver, l, img, ok) {
                                return;
                            }
                        }
                    }
                    Out::Panic => {
                        if ok {
                            ctx.violation("c18/spurious-panic/adapters", || format!("step {}: count()/last()/fold() panicked on a valid map", step));
                            return;
                        }
                    }
                }
            }
            Op::Len(h) => {
                let h = h as usize;
                let Some(it) = real[h].as_ref() else { continue };
                let r = ctx.call("len", || it.len());
                if r.is_panic() {
                    ctx.ob("h.len.panic", 1);
                }
                match r {
                    Out::Val(x) => {
                        ctx.ob("len", x as u64);
                        if ok && x != n - model[h] {
                            ctx.violation("c18/len", || format!("step {} {:?}: len() = {} with {} of {} items consumed", step, op, x, model[h], n));
                            return;
                        }
                    }
                    Out::Panic => {
                        if ok {
                            ctx.violation("c18/spurious-panic/len", || "len() panicked on a valid map".into());
                            return;
                        }
                    }
                }
            }
            Op::Hint(h) => {
                let h = h as usize;
                let Some(it) = real[h].as_ref() else { continue };
                if let Out::Val((lo, hi)) = ctx.call("size_hint", || it.size_hint()) {
                    let rem = n - model[h].min(n);
                    if ok && (lo > rem || hi.map_or(false, |x| x < rem)) {
                        ctx.violation("c18/size_hint", || format!("step {}: size_hint() = ({}, {:?}) with {} items still to come", step, lo, hi, rem));
                        return;
                    }
                }
            }
            Op::Fmt(h) => {
                let h = h as usize;
                let Some(it) = real[h].as_ref() else { continue };
                let r = ctx.call("Debug(iter)", || format!("{:?}", it).len());
                if r.is_panic() && ok {
                    ctx.violation("c18/spurious-panic/debug", || "Debug panicked on a valid map".into());
                    return;
                }
            }
        }
        let mut cs = model.clone();
        cs.sort_unstable();
        let mut h2 = sh;
        for c in cs {
            h2.u64(c as u64);
        }
        ctx.state(h2.get());
    }
    ctx.class("history:done");
}

fn run(ctx: &mut Ctx) {
    let arena = Arena::new(2);
    let quick = ctx.quick();
    let lmax = if quick { 2 * 64 + 9 } else { 6 * 64 + 9 };
    ctx.bound("inputs", format!("desc_size 0..=128 + EDGE32 x desc_version {{1,0,2,0xFFFFFFFF}} x every map length 0..={} (not only multiples); byte-marked descriptors; tag flush against a guard page; fills A/B; canonical program = memory_areas, Debug, then next() to the end with len()/size_hint() before every step, a clone after the first item, clone_from to and from an iterator over a second map, Debug of the tag; size_hint() must be exact", lmax));
    let mut ds: Vec<u32> = (0..=128).collect();
    ds.extend(EDGE32.iter().copied().filter(|&e| e > 128));
    let mut versions: Vec<u32> = vec![1, 0, 2, 0xFFFF_FFFF];
    for &d in &ds {
        for &ver in &versions {
            for l in 0..=lmax {
                let img = image(d, ver, l);
                let describe = || J::obj().set("body", "canonical").set("desc_size", d).set("desc_version", ver).set("map_len", l).set("tag", J::hex(&img));
                ctx.leaf(describe, |ctx| {
                    ctx.state_direct();
                    if valid(d, ver, l) || (l > 0 && d > 0 && l % d as usize == 0) || ver == 1 {
                        ctx.nontrivial();
                    }
                    canonical(ctx, &arena, d, ver, l, &img);
                });
            }
        }
    }
    // the two words exchanged or related: a version word that is a legal stride, with small size words
    ctx.bound("swapped_words", "desc_version in {40, 48, 56, 64, 128} (legal strides) x desc_size in {0, 1, 2, 8, 40, 48, 56, 64, the version word itself} x every map length 0..=200: only version 1 is valid");
    for ver in [40u32, 48, 56, 64, 128] {
        for d in [0u32, 1, 2, 8, 40, 48, 56, 64, ver] {
            for l in 0..=200usize {
                let img = image(d, ver, l);
                let describe = || J::obj().set("body", "canonical-swapped").set("desc_size", d).set("desc_version", ver).set("map_len", l);
                ctx.leaf(describe, |ctx| {
                    ctx.state_direct();
                    ctx.nontrivial();
                    canonical(ctx, &arena, d, ver, l, &img);
                });
            }
        }
    }
    // map lengths that are whole pages (a firmware buffer handed over as it is) and not multiples of the stride
    ctx.bound("page_sized_maps", "map lengths 4088, 4096, 4104, 8192, 12288 and 16384 x desc_size in {40, 48, 56, 64, 72, 80, 96, 128}: valid exactly when the length is a multiple of the stride");
    {
        let pg = Arena::new(6);
        for l in [4088usize, 4096, 4104, 8192, 12288, 16384] {
            for d in [40u32, 48, 56, 64, 72, 80, 96, 128] {
                let img = image(d, 1, l);
                let describe = || J::obj().set("body", "canonical-pages").set("desc_size", d).set("desc_version", 1).set("map_len", l);
                ctx.leaf(describe, |ctx| {
                    ctx.state_direct();
                    ctx.nontrivial();
                    canonical(ctx, &pg, d, 1, l, &img);
                });
            }
        }
    }
    // the version word: every single-bit flip of 1 and the 8/16/24-bit boundary values (a comparison on part of the word)
    versions.clear();
    versions.extend((0..32).map(|b| 1u32 ^ (1 << b)));
    versions.extend(EDGE32.iter().copied());
    ctx.bound("versions", "desc_version = 1 with every single bit flipped, and every EDGE32 value, on maps of 0, 1 and 3 descriptors of 48 bytes");
    for &ver in &versions {
        for l in [0usize, 48, 144] {
            let img = image(48, ver, l);
            let describe = || J::obj().set("body", "canonical-version").set("desc_size", 48).set("desc_version", ver).set("map_len", l);
            ctx.leaf(describe, |ctx| {
                ctx.state_direct();
                ctx.nontrivial();
                canonical(ctx, &arena, 48, ver, l, &img);
            });
        }
    }
    // several descriptors at every valid stride up to 128 and at larger ones; large counts
    ctx.bound("large", "2 and 3 descriptors at every stride 40,48,..,128 and 136, 248, 256, 264, 4096; 255, 256, 257 descriptors of 40 bytes; 1366 descriptors of 48 bytes (map longer than 64 KiB); 4095..4097 and 65535..65537 descriptors of 40 bytes, 65537 of 48 bytes; 3 descriptors of 64 KiB, 2 of 1 MiB; 65537 bytes of map with stride 40 (not divisible)");
    let big = Arena::new(800);
    let mut large: Vec<(u32, usize)> = vec![];
    for d in (40u32..=128).step_by(8).chain([136, 248, 256, 264, 4096]) {
        large.push((d, 2 * d as usize));
        large.push((d, 3 * d as usize));
    }
    large.extend([(40, 255 * 40), (40, 256 * 40), (40, 257 * 40), (48, 1366 * 48), (40, 65537), (40, 4095 * 40), (40, 4096 * 40), (40, 4097 * 40), (40, 65535 * 40), (40, 65536 * 40), (40, 65537 * 40), (48, 65537 * 48), (65536, 65536 * 3), (0x10_0000, 0x20_0000)]);
    for (d, l) in large {
        let img = image(d, 1, l);
        let describe = || J::obj().set("body", "canonical-large").set("desc_size", d).set("desc_version", 1).set("map_len", l);
        ctx.leaf(describe, |ctx| {
            ctx.state_direct();
            ctx.nontrivial();
            canonical(ctx, &big, d, 1, l, &img);
        });
    }
    // contents: descriptors that are entirely zero (a "nothing here" slot) in every position
    ctx.bound("zero_descriptors", "maps of 1..=5 descriptors at strides 40, 48 and 64 where each descriptor is byte-marked or all zero (every combination): count, order and contents are decided by the lengths alone");
    for d in [40u32, 48, 64] {
        for n in 1..=5usize {
            for mask in 0..(1u32 << n) {
                let l = n * d as usize;
                let mut img = image(d, 1, l);
                for k in 0..n {
                    if mask >> k & 1 == 1 {
                        for b in &mut img[16 + k * d as usize..16 + (k + 1) * d as usize] {
                            *b = 0;
                        }
                    }
                }
                let describe = || J::obj().set("body", "zero-descriptors").set("desc_size", d).set("descriptors", n).set("all_zero_mask", mask);
                ctx.leaf(describe, |ctx| {
                    ctx.state_direct();
                    ctx.nontrivial();
                    canonical(ctx, &arena, d, 1, l, &img);
                });
            }
        }
    }
    // contents: the type word of one descriptor over every defined EFI memory type, the first undefined ones and the
    // boundary values (a type must never act as a terminator or a filter)
    ctx.bound("descriptor_types", "maps of 3 descriptors at stride 40 and 48 whose first / middle / last descriptor has the type word 0..=20, 0x7FFFFFFF, 0x80000000, 0xFFFFFFFF (the other fields byte-marked)");
    for d in [40u32, 48] {
        for pos in 0..3usize {
            for ty in (0u32..=20).chain([0x7FFF_FFFF, 0x8000_0000, 0xFFFF_FFFF]) {
                let l = 3 * d as usize;
                let mut img = image(d, 1, l);
                wr32(&mut img, 16 + pos * d as usize, ty);
                let describe = || J::obj().set("body", "descriptor-types").set("desc_size", d).set("position", pos).set("type_word", ty);
                ctx.leaf(describe, |ctx| {
                    ctx.state_direct();
                    ctx.nontrivial();
                    canonical(ctx, &arena, d, 1, l, &img);
                });
            }
        }
    }
    // histories
    let depth = if quick { 4 } else if ctx.dev_profile() { 5 } else { 6 };
    ctx.bound("histories", format!("all call sequences up to depth {} over {{next, nth(1), nth(7), nth(usize::MAX), len, size_hint, Debug, count/last/fold on clones}} on up to 2 handles plus clone, on desc_size {{40,48,64}} x 0..=3 descriptors and six invalid combinations", depth));
    let mut inputs: Vec<(u32, u32, usize)> = vec![];
    for d in [40u32, 48, 64] {
        for k in 0..=3usize {
            inputs.push((d, 1, k * d as usize));
        }
    }
    inputs.extend([(24, 1, 48), (44, 1, 88), (48, 1, 100), (48, 0, 96), (0, 1, 0), (40, 2, 40)]);
    for (d, ver, l) in inputs {
        let img = image(d, ver, l);
        enumerate(0, |ch| {
            let prog = gen_program(ch, depth);
            let describe = || J::obj().set("body", "history").set("desc_size", d).set("desc_version", ver).set("map_len", l).set("program", format!("{:?}", prog));
            ctx.leaf(describe, |ctx| {
                ctx.nontrivial();
                history(ctx, &arena, d, ver, l, &img, &prog);
            });
        });
    }
}

fn main() {
    main_wrap("C18", run);
}
