//! C14 - raw bytes become a structure only when aligned, padded and
//! size-consistent (DESIGN 4, C14).
use mbvlib::spec::*;
use mbvlib::*;
use multiboot2::{BootInformationHeader, TagHeader};
use multiboot2_common::test_utils::DummyTestHeader;
use multiboot2_common::{increase_to_alignment, BytesRef, DynSizedStructure, Header, MemoryError};
use multiboot2_header::{HeaderTagHeader, Multiboot2BasicHeader};

/// Byte-level description of a header kind (reference side: literal offsets).
trait HK: Header + 'static {
    const NAME: &'static str;
    const HDR: usize;
    const SIZE_OFF: usize;
    /// A header image with legal enumerated fields and marker bytes elsewhere.
    fn template() -> [u8; 16];
    /// Further header images whose enumerated fields hold other defined values (kind-specific special cases: the end
    /// type, the other architecture, the other flag).
    fn variants() -> Vec<[u8; 16]> {
        vec![Self::template()]
    }
}
impl HK for DummyTestHeader {
    const NAME: &'static str = "DummyTestHeader";
    const HDR: usize = 8;
    const SIZE_OFF: usize = 4;
    fn template() -> [u8; 16] {
        let mut t = [0u8; 16];
        wr32(&mut t, 0, 0x1337_a1b2);
        t
    }
}
impl HK for TagHeader {
    const NAME: &'static str = "TagHeader";
    const HDR: usize = 8;
    const SIZE_OFF: usize = 4;
    fn template() -> [u8; 16] {
        let mut t = [0u8; 16];
        wr32(&mut t, 0, 0x0000_1337);
        t
    }
    fn variants() -> Vec<[u8; 16]> {
        [0x1337u32, 0, 1, 3, 21, 0xFFFF_FFFF].iter().map(|&ty| { let mut t = [0u8; 16]; wr32(&mut t, 0, ty); t }).collect()
    }
}
impl HK for BootInformationHeader {
    const NAME: &'static str = "BootInformationHeader";
    const HDR: usize = 8;
    const SIZE_OFF: usize = 0;
    fn template() -> [u8; 16] {
        let mut t = [0u8; 16];
        wr32(&mut t, 4, 0xa5b6_c7d8);
        t
    }
}
impl HK for HeaderTagHeader {
    const NAME: &'static str = "HeaderTagHeader";
    const HDR: usize = 8;
    const SIZE_OFF: usize = 4;
    fn template() -> [u8; 16] {
        let mut t = [0u8; 16];
        wr16(&mut t, 0, 5); // a defined tag type
        wr16(&mut t, 2, 1); // a defined flag
        t
    }
    fn variants() -> Vec<[u8; 16]> {
        let mut v = vec![];
        for ty in [5u16, 0, 1, 10] {
            for fl in [1u16, 0] {
                let mut t = [0u8; 16];
                wr16(&mut t, 0, ty);
                wr16(&mut t, 2, fl);
                v.push(t);
            }
        }
        v
    }
}
impl HK for Multiboot2BasicHeader {
    const NAME: &'static str = "Multiboot2BasicHeader";
    const HDR: usize = 16;
    const SIZE_OFF: usize = 8;
    fn template() -> [u8; 16] {
        let mut t = [0u8; 16];
        wr32(&mut t, 0, 0xe852_50d6);
        wr32(&mut t, 4, 4); // MIPS32: a defined architecture
        wr32(&mut t, 12, 0x9182_7364);
        t
    }
    fn variants() -> Vec<[u8; 16]> {
        let mut a = Self::template();
        wr32(&mut a, 4, 0); // i386
        vec![Self::template(), a]
    }
}

// user-defined header kinds whose size is not 8 or 16 (the generic code must not assume the in-tree sizes)
macro_rules! custom_header {
    ($name:ident, $label:expr, $hdr:expr, $size_off:expr, { $($field:ident : $t:ty),* }) => {
        #[derive(Clone, PartialEq, Eq, Debug)]
        #[repr(C)]
        struct $name { $($field: $t),* }
        impl Header for $name {
            fn payload_len(&self) -> usize {
                (self.size as usize).saturating_sub(std::mem::size_of::<Self>())
            }
            fn total_size(&self) -> usize {
                self.size as usize
            }
            fn set_size(&mut self, total_size: usize) {
                self.size = total_size as u32;
            }
        }
        impl HK for $name {
            const NAME: &'static str = $label;
            const HDR: usize = $hdr;
            const SIZE_OFF: usize = $size_off;
            fn template() -> [u8; 16] {
                let mut t = [0u8; 16];
                for (i, b) in t.iter_mut().enumerate() {
                    *b = 0xC0 | i as u8;
                }
                t
            }
        }
    };
}
custom_header!(H4, "user header of 4 bytes", 4, 0, { size: u32 });
custom_header!(H12, "user header of 12 bytes", 12, 4, { a: u32, size: u32, b: u32 });
// 16 bytes is the limit of the template; a 16-byte user header with the size word last
custom_header!(H16, "user header of 16 bytes (size word last)", 16, 12, { a: u32, b: u32, c: u32, size: u32 });

fn err_name(e: MemoryError) -> &'static str {
    match e {
        MemoryError::Null => "Null",
        MemoryError::WrongAlignment => "WrongAlignment",
        MemoryError::ShorterThanHeader => "ShorterThanHeader",
        MemoryError::MissingPadding => "MissingPadding",
        MemoryError::InvalidReportedTotalSize => "InvalidReportedTotalSize",
    }
}

fn run_kind<H: HK>(ctx: &mut Ctx, arena: &Arena, max_len: usize) {
    let mut declared: Vec<u32> = (0..=(max_len as u32 + 24)).collect();
    for e in EDGE32 {
        if !declared.contains(&e) {
            declared.push(e);
        }
    }
    for (vi, t) in H::variants().into_iter().enumerate() {
    for len in 0..=max_len {
        if vi > 0 && len > 40 {
            continue; // the further variants: short slices (every verdict class still occurs)
        }
        for align in 0..8usize {
            for &decl in &declared {
                // the slice image: header template with the declared size, marker payload
                let mut img = vec![0u8; len];
                for i in 0..len {
                    img[i] = if i < H::HDR { t[i] } else { marker(i, 1) };
                }
                if len >= H::SIZE_OFF + 4 {
                    wr32(&mut img, H::SIZE_OFF, decl);
                }
                let pad = (16usize.wrapping_sub(len + align)) % 8; // start % 8 == align, as close to the guard as possible
                let describe = || {
                    J::obj()
                        .set("header_kind", H::NAME)
                        .set("header_variant", vi)
                        .set("slice_len", len)
                        .set("start_alignment", align)
                        .set("declared_size", decl)
                        .set("slice_bytes", J::hex(&img))
                };
                ctx.leaf(describe, |ctx| {
                    ctx.under_fills(&format!("c14/o5/{}", H::NAME), |ctx, fill| {
                        arena.fill(fill);
                        let off = arena.len() - len - pad;
                        let p = arena.place_at(off, &img);
                        assert_eq!(p as usize % 8, align);
                        let slice: &[u8] = unsafe { std::slice::from_raw_parts(p, len) };
                        check_one::<H>(ctx, slice, decl as usize, align);
                    });
                    ctx.state_direct();
                });
            }
        }
    }
    }
}

/// Large slices: lengths and declarations around the page size, the specification's 32 KiB header limit, the 16-bit
/// boundary, 1 MiB and 16 MiB.
fn run_large<H: HK>(ctx: &mut Ctx, arena: &Arena, bases: &[usize]) {
    for &l in bases {
        for (dl, dd) in [(0i64, 0i64), (0, -8), (0, 8), (-8, 0), (8, 0), (8, 1), (0, -3), (16, -16), (-16, 16), (0, 4096), (0, -4096)] {
            let len = (l as i64 + dl) as usize;
            let decl = (l as i64 + dd) as u32;
            let describe = || J::obj().set("part", "large").set("header_kind", H::NAME).set("slice_len", len).set("declared_size", decl).set("start_alignment", 0);
            ctx.leaf(describe, |ctx| {
                ctx.state_direct();
                let mut img = vec![0u8; len];
                let t = H::template();
                for i in 0..len {
                    img[i] = if i < H::HDR { t[i] } else { marker(i, 1) };
                }
                wr32(&mut img, H::SIZE_OFF, decl);
                let p = arena.place_at(arena.len() - len, &img);
                let slice: &[u8] = unsafe { std::slice::from_raw_parts(p, len) };
                check_one::<H>(ctx, slice, decl as usize, 0);
            });
        }
    }
}

/// Two interpretations of the same memory in a row (results must not depend on what an earlier call saw): every
/// ordered pair over header kind x slice length x declared size, both slices starting at the same address.
fn call_pairs(ctx: &mut Ctx, arena: &Arena) {
    fn put<H: HK>(arena: &Arena, len: usize, decl: u32) -> &'static [u8] {
        let mut img = vec![0u8; len];
        let t = H::template();
        for i in 0..len {
            img[i] = if i < H::HDR { t[i] } else { marker(i, 1) };
        }
        if len >= H::SIZE_OFF + 4 {
            wr32(&mut img, H::SIZE_OFF, decl);
        }
        let p = arena.place_at(0, &img);
        unsafe { std::slice::from_raw_parts(p, len) }
    }
    fn one(ctx: &mut Ctx, arena: &Arena, k: usize, len: usize, decl: u32) {
        match k {
            0 => check_one::<TagHeader>(ctx, put::<TagHeader>(arena, len, decl), decl as usize, 0),
            1 => check_one::<BootInformationHeader>(ctx, put::<BootInformationHeader>(arena, len, decl), decl as usize, 0),
            2 => check_one::<HeaderTagHeader>(ctx, put::<HeaderTagHeader>(arena, len, decl), decl as usize, 0),
            _ => check_one::<Multiboot2BasicHeader>(ctx, put::<Multiboot2BasicHeader>(arena, len, decl), decl as usize, 0),
        }
    }
    const LENS: [usize; 4] = [8, 16, 24, 32];
    const DECLS: [u32; 4] = [8, 16, 24, 32];
    const NAMES: [&str; 4] = ["TagHeader", "BootInformationHeader", "HeaderTagHeader", "Multiboot2BasicHeader"];
    ctx.bound("call_pairs", "every ordered pair of interpretations (header kind x slice length {8,16,24,32} x declared size {8,16,24,32}) of slices starting at one and the same address, each judged by the stateless reference: 4096 pairs");
    for a in 0..64usize {
        for b in 0..64usize {
            let (ka, la, da) = (a / 16, LENS[a / 4 % 4], DECLS[a % 4]);
            let (kb, lb, db) = (b / 16, LENS[b / 4 % 4], DECLS[b % 4]);
            let describe = || J::obj().set("part", "call_pairs").set("first", format!("{} on {} bytes declaring {}", NAMES[ka], la, da)).set("second", format!("{} on {} bytes declaring {}", NAMES[kb], lb, db));
            ctx.leaf(describe, |ctx| {
                ctx.state_direct();
                arena.fill(arena::FILL_A);
                one(ctx, arena, ka, la, da);
                one(ctx, arena, kb, lb, db);
            });
        }
    }
}

fn check_one<H: HK>(ctx: &mut Ctx, slice: &[u8], decl: usize, align: usize) {
    let len = slice.len();
    // reference verdict, in the stated precedence
    let expected: Option<&'static str> = if len < H::HDR {
        Some("ShorterThanHeader")
    } else if align != 0 {
        Some("WrongAlignment")
    } else if len % 8 != 0 {
        Some("MissingPadding")
    } else if decl > len {
        Some("InvalidReportedTotalSize")
    } else {
        None
    };
    // --- BytesRef::try_from: the first three conditions only
    let exp_b = match expected {
        Some("InvalidReportedTotalSize") => None,
        e => e,
    };
    match ctx.call("BytesRef::try_from", || BytesRef::<H>::try_from(slice)) {
        Out::Panic => ctx.violation(&format!("c14/bytesref/panic/{}", H::NAME), || "BytesRef::try_from panicked".into()),
        Out::Val(Err(e)) => {
            ctx.ob("bytesref.err", err_name(e).len() as u64);
            match exp_b {
                Some(x) if x == err_name(e) => ctx.class("bytesref:err"),
                Some(x) => ctx.violation(&format!("c14/bytesref/wrong-error/{}/{}-for-{}", H::NAME, err_name(e), x), || {
                    format!("BytesRef reported {} where {} has precedence", err_name(e), x)
                }),
                None => ctx.class("bytesref:refused-eligible"), // necessity only
            }
        }
        Out::Val(Ok(b)) => {
            ctx.ob("bytesref.ok", 1);
            if let Some(x) = exp_b {
                ctx.violation(&format!("c14/bytesref/accepted/{}/{}", H::NAME, x), || {
                    format!("BytesRef accepted a slice that must be refused with {}", x)
                });
            } else {
                ctx.class("bytesref:ok");
                if b.as_ptr() != slice.as_ptr() || b.len() != len {
                    ctx.violation(&format!("c14/bytesref/identity/{}", H::NAME), || "BytesRef does not view the same bytes".into());
                }
            }
        }
    }
    // --- DynSizedStructure::ref_from_slice
    let r = ctx.call("ref_from_slice", || {
        DynSizedStructure::<H>::ref_from_slice(slice).map(|s| {
            let addr = s as *const DynSizedStructure<H> as *const u8 as usize;
            let sov = std::mem::size_of_val(s);
            let pl = s.payload();
            (addr, sov, pl.as_ptr() as usize, pl.len())
        })
    });
    match r {
        Out::Panic => {
            ctx.ob("rfs.panic", 1);
            // a controlled panic is only acceptable for a declaration below the header size
            // that got past the three slice conditions (nothing states which error it would be)
            if expected.is_none() && decl < H::HDR {
                ctx.class("rfs:panic-undersized-declaration");
                ctx.nontrivial();
            } else if expected == Some("InvalidReportedTotalSize") || expected.is_none() {
                ctx.violation(&format!("c14/rfs/panic/{}/{}", H::NAME, expected.unwrap_or("eligible")), || {
                    format!("ref_from_slice panicked (declared {}, slice {})", decl, len)
                });
            } else {
                ctx.violation(&format!("c14/rfs/panic/{}/{}", H::NAME, expected.unwrap()), || {
                    format!("ref_from_slice panicked where {} must be reported", expected.unwrap())
                });
            }
        }
        Out::Val(Err(e)) => {
            ctx.ob("rfs.err", err_name(e).len() as u64);
            match expected {
                Some(x) if x == err_name(e) => {
                    ctx.class(match x {
                        "ShorterThanHeader" => "rfs:ShorterThanHeader",
                        "WrongAlignment" => "rfs:WrongAlignment",
                        "MissingPadding" => "rfs:MissingPadding",
                        _ => "rfs:InvalidReportedTotalSize",
                    });
                    ctx.nontrivial();
                }
                Some(x) => ctx.violation(&format!("c14/rfs/wrong-error/{}/{}-for-{}", H::NAME, err_name(e), x), || {
                    format!("ref_from_slice reported {} where {} has precedence (declared {}, slice {})", err_name(e), x, decl, len)
                }),
                None => ctx.class("rfs:refused-eligible"), // allowed: the property states necessity
            }
        }
        Out::Val(Ok((addr, sov, pl_addr, pl_len))) => {
            ctx.ob("rfs.ok.size_of_val", sov as u64);
            ctx.ob("rfs.ok.payload_len", pl_len as u64);
            if let Some(x) = expected {
                ctx.violation(&format!("c14/rfs/accepted/{}/{}", H::NAME, x), || {
                    format!("ref_from_slice accepted declared size {} on a slice of {} bytes (start alignment {}); must be {}; view has size_of_val {}", decl, len, align, x, sov)
                });
                return;
            }
            let base = slice.as_ptr() as usize;
            if decl < H::HDR {
                // never more than the header
                ctx.class("rfs:ok-undersized-declaration");
                if pl_len != 0 || sov > round8(H::HDR) {
                    ctx.violation(&format!("c14/rfs/undersized-yields-more/{}", H::NAME), || {
                        format!("declared {} (< header {}) yields payload of {} bytes, size_of_val {}", decl, H::HDR, pl_len, sov)
                    });
                }
                return;
            }
            ctx.class("rfs:ok");
            ctx.nontrivial();
            let mut bad = vec![];
            if addr != base {
                bad.push("address differs from the slice");
            }
            if pl_len != decl - H::HDR {
                bad.push("payload length != declared - header");
            }
            if pl_addr != base + H::HDR {
                bad.push("payload does not start right after the header");
            }
            if sov != round8(decl) {
                bad.push("size_of_val != declared rounded up to 8");
            }
            if sov > len {
                bad.push("in-memory size exceeds the slice");
            }
            if !bad.is_empty() {
                ctx.violation(&format!("c14/rfs/success-shape/{}", H::NAME), || {
                    format!("{} (declared {}, slice {}, size_of_val {}, payload {})", bad.join("; "), decl, len, sov, pl_len)
                });
            }
        }
    }
}

fn rounding(ctx: &mut Ctx) {
    // all 2^32 arguments (full) or the h<<16|l sub-lattice (quick, dev profile)
    let full = !(ctx.quick() && ctx.dev_profile());
    ctx.bound(
        "rounding",
        if full { "increase_to_alignment: all 2^32 arguments, one leaf per 2^20-block" } else { "increase_to_alignment: arguments h<<16|l, h all 65536 values, l in 0..=15 and 0xFFF0..=0xFFFF (quick, dev profile); full 2^32 in the release configuration" },
    );
    let blocks: u64 = if full { 4096 } else { 64 };
    for blk in 0..blocks {
        let describe = || J::obj().set("sweep", "increase_to_alignment").set("block", blk).set("full", full);
        ctx.leaf(describe, |ctx| {
            let mut bad: Option<(u64, u64)> = None;
            let mut n = 0u64;
            let mut acc = 0u64;
            let mut one = |x: u64| {
                let r = increase_to_alignment(x as usize) as u64;
                n += 1;
                acc = acc.wrapping_add(r);
                if !(r % 8 == 0 && r >= x && r < x + 8) && bad.is_none() {
                    bad = Some((x, r));
                }
            };
            if full {
                let lo = blk << 20;
                for x in lo..lo + (1 << 20) {
                    one(x);
                }
            } else {
                for h in (blk << 10)..((blk + 1) << 10) {
                    for l in (0..16u64).chain(0xFFF0..0x1_0000) {
                        one(h << 16 | l);
                    }
                }
            }
            let r = ctx.call("increase_to_alignment", || ());
            let _ = r;
            ctx.transitions += n - 1;
            ctx.ob("rounding.acc", acc);
            for _ in 0..1 {
                ctx.state_direct();
            }
            ctx.nontrivial();
            ctx.class("rounding:block");
            if let Some((x, r)) = bad {
                ctx.violation("c14/rounding", || format!("increase_to_alignment({}) = {}: not the least multiple of 8 >= x", x, r));
            }
        });
    }
}

fn run(ctx: &mut Ctx) {
    let arena = Arena::new(2);
    let max_len = if ctx.quick() { 48 } else { 128 };
    ctx.bound("slices", format!("slice lengths 0..={} x start alignments 0..7 x declared sizes 0..={} + EDGE32, per header kind; slices end at most 7 bytes before a PROT_NONE guard page (0 bytes for every accepted slice); each leaf executed under fill A and fill B", max_len, max_len + 24));
    ctx.bound("header_kinds", "DummyTestHeader, TagHeader (types 0x1337, 0 = end, 1, 3, 21, 0xFFFFFFFF), BootInformationHeader, HeaderTagHeader (types 5, 0 = end, 1, 10 x both flags), Multiboot2BasicHeader (both architectures), three user-defined header kinds of 4, 12 and 16 bytes (slices up to 64 bytes); the first variant of each with the full slice range, the others with slices up to 40 bytes");
    if !ctx.uniform() {
        // the test-utility header is not part of decoding Multiboot2 data: left out of cross-configuration runs
        run_kind::<DummyTestHeader>(ctx, &arena, max_len);
    }
    run_kind::<TagHeader>(ctx, &arena, max_len);
    run_kind::<BootInformationHeader>(ctx, &arena, max_len);
    run_kind::<HeaderTagHeader>(ctx, &arena, max_len);
    run_kind::<Multiboot2BasicHeader>(ctx, &arena, max_len);
    if !ctx.uniform() {
        run_kind::<H4>(ctx, &arena, max_len.min(64));
        run_kind::<H12>(ctx, &arena, max_len.min(64));
        run_kind::<H16>(ctx, &arena, max_len.min(64));
    }
    let bases: Vec<usize> = if ctx.quick() { vec![4096, 32768, 65536, 1 << 20] } else { vec![256, 4096, 8192, 32768, 65536, 1 << 20, 1 << 24] };
    ctx.bound("large_slices", format!("per header kind: slice lengths L + {{0, -8, 8, 16, -16}} x declared sizes L + {{0, -8, 8, 1, -3, 16, -16, 4096, -4096}} (11 combinations) for L in {:?}; slice flush against the guard page", bases));
    let big = Arena::new_sparse((*bases.last().unwrap() + 65536) / 4096);
    big.fill(arena::FILL_A);
    run_large::<TagHeader>(ctx, &big, &bases);
    run_large::<BootInformationHeader>(ctx, &big, &bases);
    run_large::<HeaderTagHeader>(ctx, &big, &bases);
    run_large::<Multiboot2BasicHeader>(ctx, &big, &bases);
    // slices of 4 GiB and more: the error precedence must not depend on the slice length's low 32 bits
    ctx.bound("giant_slices", "per header kind: slice lengths 2^32 - 8, 2^32, 2^32 + 4, 2^32 + 8, 2^32 + 12, 2^32 + 16 x start alignment {0, 4} x declared size {16, 24, 0xFFFFFFFF, 0, 4, 7}; slices in a sparsely backed 8 GiB arena (only the header bytes are touched)");
    {
        let giant = Arena::new_sparse((2usize << 32) / 4096);
        run_giant::<TagHeader>(ctx, &giant);
        run_giant::<BootInformationHeader>(ctx, &giant);
        run_giant::<HeaderTagHeader>(ctx, &giant);
        run_giant::<Multiboot2BasicHeader>(ctx, &giant);
    }
    // header words that stand in a relation to one another: a length chosen so that the first three (or all four) words
    // of a basic header sum to zero, under the Multiboot2 magic, the Multiboot1 magic, the boot-loader magic and 0
    ctx.bound("related_header_words", "Multiboot2BasicHeader with magic in {0xE85250D6, 0x1BADB002, 0x36D76289, 0} x architecture {0, 4} x length in {-(magic + arch), -(magic + arch + checksum word), magic, the checksum word} (mostly far larger than the slice) on slices of 16, 24 and 64 bytes: judged like every other declaration");
    for magic in [0xE852_50D6u32, 0x1BAD_B002, 0x36D7_6289, 0] {
        for arch in [0u32, 4] {
            for li in 0..4 {
                for len in [16usize, 24, 64] {
                    let cs = 0x9182_7364u32;
                    let decl = [0u32.wrapping_sub(magic).wrapping_sub(arch), 0u32.wrapping_sub(magic).wrapping_sub(arch).wrapping_sub(cs), magic, cs][li];
                    let describe = || J::obj().set("part", "related_header_words").set("magic", format!("{:#x}", magic)).set("architecture", arch).set("declared_size", decl).set("slice_len", len);
                    ctx.leaf(describe, |ctx| {
                        ctx.state_direct();
                        let mut img = vec![0u8; len];
                        for (i, b) in img.iter_mut().enumerate() {
                            *b = marker(i, 1);
                        }
                        wr32(&mut img, 0, magic);
                        wr32(&mut img, 4, arch);
                        wr32(&mut img, 8, decl);
                        wr32(&mut img, 12, cs);
                        let p = arena.place_at(arena.len() - len, &img);
                        let slice: &[u8] = unsafe { std::slice::from_raw_parts(p, len) };
                        check_one::<Multiboot2BasicHeader>(ctx, slice, decl as usize, 0);
                    });
                }
            }
        }
    }
    call_pairs(ctx, &arena);
    rounding(ctx);
}

fn run_giant<H: HK>(ctx: &mut Ctx, arena: &Arena) {
    for len in [(1usize << 32) - 8, 1 << 32, (1 << 32) + 4, (1 << 32) + 8, (1 << 32) + 12, (1 << 32) + 16] {
        for align in [0usize, 4] {
            for decl in [16u32, 24, 0xFFFF_FFFF, 0, 4, 7] {
                let describe = || J::obj().set("part", "giant").set("header_kind", H::NAME).set("slice_len", len).set("declared_size", decl).set("start_alignment", align);
                ctx.leaf(describe, |ctx| {
                    ctx.state_direct();
                    let start = (arena.len() - len - 64) & !7;
                    let t = H::template();
                    let mut hdr = t[..H::HDR].to_vec();
                    wr32(&mut hdr, H::SIZE_OFF, decl);
                    let p = arena.place_at(start + align, &hdr);
                    let slice: &[u8] = unsafe { std::slice::from_raw_parts(p, len) };
                    check_one::<H>(ctx, slice, decl as usize, align);
                });
            }
        }
    }
}

fn main() {
    main_wrap("C14", run);
}
