//! C02 - loading accepts exactly the well-formed boot informations.
use mbvlib::spec::*;
use mbvlib::*;
use multiboot2::{BootInformation, BootInformationHeader, LoadError};
use multiboot2_common::MemoryError;

const RESERVED: [u32; 3] = [0, 8, 0xFFFF_FFFF];
const TYPW: [u32; 8] = [0, 1, 8, 0x100, 0x1_0000, 0x0100_0000, 0x8000_0000, 0xFFFF_FFFF];
const SIZW: [u32; 10] = [8, 0, 7, 9, 16, 0x108, 0x1_0008, 0x0100_0008, 0x8000_0008, 0xFFFF_FFFF];

#[derive(Clone, Copy, PartialEq, Eq, Debug)]
enum V {
    Null,
    Short,
    Padding,
    NoEnd,
    Ok,
}

fn vname(v: V) -> &'static str {
    match v {
        V::Null => "Null",
        V::Short => "ShorterThanHeader",
        V::Padding => "MissingPadding",
        V::NoEnd => "NoEndTag",
        V::Ok => "Ok",
    }
}

/// Reference verdict from the bytes of the region only.
fn load_verdict(region: &[u8], total: usize) -> V {
    if total < 8 {
        V::Short
    } else if total % 8 != 0 {
        V::Padding
    } else if rd32(region, total - 8) == 0 && rd32(region, total - 4) == 8 {
        V::Ok
    } else {
        V::NoEnd
    }
}

/// The Debug output of a loaded boot information reports the same three numbers as the accessors (small regions only:
/// it also formats every tag; a panic in there is not this check's business).
fn debug_report(ctx: &mut Ctx, p: *const u8, total: usize) {
    let r = ctx.call("Debug(BootInformation)", || unsafe { BootInformation::load(p as *const BootInformationHeader) }.map(|bi| format!("{:?}", bi)).unwrap_or_default());
    if let Out::Val(text) = r {
        let field = |name: &str| -> Option<usize> {
            let i = text.find(name)? + name.len();
            let digits: String = text[i..].chars().take_while(|c| c.is_ascii_digit()).collect();
            digits.parse().ok()
        };
        let got = (field("start_address: "), field("end_address: "), field("total_size: "));
        let a = p as usize;
        if !text.is_empty() && got != (Some(a), Some(a + total), Some(total)) {
            ctx.violation("c02/load/debug-report", || format!("Debug output reports start/end/total_size = {:?}, the accessors and the region say {:#x}/{:#x}/{}", got, a, a + total, total));
        }
    }
}

fn observe(ctx: &mut Ctx, p: *const u8, expected: V, total: usize) {
    if expected == V::Ok && total <= 256 {
        debug_report(ctx, p, total);
    }
    let r = ctx.call("BootInformation::load", || unsafe {
        BootInformation::load(p as *const BootInformationHeader).map(|bi| {
            (bi.start_address(), bi.end_address(), bi.total_size(), bi.as_ptr() as usize)
        })
    });
    let got = match &r {
        Out::Panic => None,
        Out::Val(Ok(_)) => Some(V::Ok),
        Out::Val(Err(LoadError::Memory(MemoryError::Null))) => Some(V::Null),
        Out::Val(Err(LoadError::Memory(MemoryError::ShorterThanHeader))) => Some(V::Short),
        Out::Val(Err(LoadError::Memory(MemoryError::MissingPadding))) => Some(V::Padding),
        Out::Val(Err(LoadError::NoEndTag)) => Some(V::NoEnd),
        Out::Val(Err(_)) => Some(V::Null).filter(|_| false),
    };
    ctx.ob("load.class", got.map(|g| g as u64 + 1).unwrap_or(0));
    match (&r, got) {
        (Out::Panic, _) => {
            ctx.class("load:panic");
            ctx.violation(&format!("c02/load/panic/expected-{}", vname(expected)), || {
                format!("load panicked for declared total size {}; must return {}", total, vname(expected))
            })
        }
        (_, Some(g)) if g == expected => {
            ctx.class(match g {
                V::Null => "load:Null",
                V::Short => "load:ShorterThanHeader",
                V::Padding => "load:MissingPadding",
                V::NoEnd => "load:NoEndTag",
                V::Ok => "load:Ok",
            });
            if let Out::Val(Ok((start, end, ts, ptr))) = r {
                let a = p as usize;
                if start != a || end != a + total || ts != total || ptr != a {
                    ctx.violation("c02/load/ok-accessors", || {
                        format!("start/end/total_size/as_ptr = {:#x}/{:#x}/{}/{:#x}, expected {:#x}/{:#x}/{}/{:#x}", start, end, ts, ptr, a, a + total, total, a)
                    });
                }
            }
        }
        (Out::Val(Err(e)), _) => ctx.violation(&format!("c02/load/wrong-verdict/expected-{}", vname(expected)), || {
            format!("load returned Err({:?}) for declared total size {}; must be {}", e, total, vname(expected))
        }),
        (Out::Val(Ok(_)), _) => ctx.violation(&format!("c02/load/accepted/expected-{}", vname(expected)), || {
            format!("load accepted a region declaring total size {}; must be {}", total, vname(expected))
        }),
    }
}

fn run(ctx: &mut Ctx) {
    let max_total: usize = if ctx.quick() && ctx.dev_profile() { 4096 + 16 } else if ctx.quick() || ctx.dev_profile() { (1 << 20) + 16 } else { (8 << 20) + 16 };
    ctx.bound(
        "space",
        format!(
            "null pointer; every total-size word 0..={} x reserved word {{0, 8, 0xFFFFFFFF, the total size itself, its complement, its negation}} x last 8 bytes of the declared region = (type word in {{0,1,8,0x100,0x10000,0x01000000,0x80000000,0xFFFFFFFF}}) x (size word in {{8,0,7,9,16,0x108,0x10008,0x01000008,0x80000008,0xFFFFFFFF}}); for total sizes 16, 24 and 4096 additionally every 1-bit and 2-bit flip of a valid end tag; region placed flush against a PROT_NONE guard page; for accepted regions of up to 256 bytes the three numbers in the Debug output are compared too",
            max_total
        ),
    );
    let pages = (max_total + 8) / arena::PAGE + 2;
    let arena = Arena::new(pages);
    arena.fill(0xB7);
    // null pointer
    ctx.leaf(
        || J::obj().set("pointer", "null"),
        |ctx| {
            observe(ctx, std::ptr::null(), V::Null, 0);
            ctx.state_direct();
            ctx.nontrivial();
        },
    );
    flips(ctx, &arena);
    huge(ctx);
    let body_arena = Arena::new(20);
    bodies(ctx, &body_arena);
    addresses(ctx);
    special_sizes(ctx);
    surroundings(ctx, &body_arena);
    known_types(ctx, &body_arena);
    for total in 0..=max_total {
        let span = round8(total).max(8);
        let p = unsafe { arena.end().sub(span) };
        // the reserved word: fixed values, and values that stand in a relation to the total-size word
        let t32 = total as u32;
        let mut reserved: Vec<u32> = RESERVED.to_vec();
        for r in [t32, !t32, 0u32.wrapping_sub(t32)] {
            if !reserved.contains(&r) {
                reserved.push(r);
            }
        }
        for &res in &reserved {
            for &tw in &TYPW {
                for &sw in &SIZW {
                    let describe = || {
                        J::obj()
                            .set("total_size_word", total)
                            .set("reserved_word", res)
                            .set("last8_type_word", tw)
                            .set("last8_size_word", sw)
                            .set("placement", "flush-right")
                    };
                    ctx.leaf(describe, |ctx| {
                        let region: &mut [u8] = unsafe { std::slice::from_raw_parts_mut(p, span) };
                        if total >= 8 {
                            // last 8 bytes of the declared region first, header words on top
                            region[total - 8..total - 4].copy_from_slice(&tw.to_le_bytes());
                            region[total - 4..total].copy_from_slice(&sw.to_le_bytes());
                        }
                        wr32(region, 0, total as u32);
                        wr32(region, 4, res);
                        let expected = load_verdict(region, total);
                        observe(ctx, p, expected, total);
                        ctx.state_direct();
                        if total < 16 || total % 8 != 0 || expected == V::Ok || tw == 0 || sw == 8 {
                            ctx.nontrivial();
                        }
                    });
                }
            }
        }
    }
}

/// Region sizes far above the dense range, in a sparsely backed 4 GiB arena: only the header page and the
/// page holding the last 8 bytes are ever touched.
fn huge(ctx: &mut Ctx) {
    let arena = Arena::new_sparse((1usize << 32) / arena::PAGE + 1);
    ctx.bound("huge", "total sizes {16 MiB, 64 MiB, 256 MiB, 1 GiB, 2 GiB, 4 GiB - 8} and each +-8, +-16 (region physically present, sparsely backed) x valid / invalid end tag");
    for base in [16usize << 20, 64 << 20, 256 << 20, 1 << 30, 2 << 30, (4usize << 30) - 8] {
        for d in [-16i64, -8, 0, 8, 16, 4] {
            let total = (base as i64 + d) as usize;
            if total >= (4usize << 30) {
                continue;
            }
            for valid_end in [true, false] {
                let describe = || J::obj().set("total_size_word", total).set("valid_end_tag", valid_end).set("placement", "flush-right in a sparse 4 GiB arena");
                ctx.leaf(describe, |ctx| {
                    let span = round8(total);
                    let p = unsafe { arena.end().sub(span) };
                    let hdr: &mut [u8] = unsafe { std::slice::from_raw_parts_mut(p, 8) };
                    wr32(hdr, 0, total as u32);
                    wr32(hdr, 4, 0);
                    let tail: &mut [u8] = unsafe { std::slice::from_raw_parts_mut(p.add(total - 8), 8) };
                    wr32(tail, 0, 0);
                    wr32(tail, 4, if valid_end { 8 } else { 9 });
                    let expected = if total % 8 != 0 { V::Padding } else if valid_end { V::Ok } else { V::NoEnd };
                    observe(ctx, p, expected, total);
                    ctx.state_direct();
                    ctx.nontrivial();
                });
            }
        }
    }
}

/// Well-formed tag sequences as the body: the verdict only depends on the size word and the last 8 bytes, whatever the
/// tags in between are (further end tags included).
fn bodies(ctx: &mut Ctx, arena: &Arena) {
    let maxlen = if ctx.quick() { 3 } else { 5 };
    ctx.bound("bodies", format!("regions whose body is every sequence of up to {} tags over {{end tag (0,8), string tag (1,13), custom (0x1337,8), module (3,17), custom with size 0, eight zero bytes, a 16-byte custom tag whose payload is an end-tag image, two 16-byte custom tags whose payload is the header image of a specified tag}} followed by {{an end tag, a non-end tag, nothing}}; plus 64 KiB regions with an end tag in the middle", maxlen));
    // (type, size); the last two: eight zero bytes (type 0, size 0), and a custom tag of 16 bytes whose payload is an end-tag image
    let alpha: [(u32, u32); 9] = [(0, 8), (1, 13), (0x1337, 8), (3, 17), (0x1337, 0), (0, 0), (0x4242, 16), (0x4243, 16), (0x4244, 16)];
    let mut regions: Vec<Vec<u8>> = vec![];
    for len in 0..=maxlen {
        for code in 0..9usize.pow(len as u32) {
            for tail in 0..3 {
                let mut r = vec![0u8; 8];
                for i in 0..len {
                    let (t, sz) = alpha[(code / 9usize.pow(i as u32)) % 9];
                    let o = r.len();
                    r.resize(o + round8(sz as usize).max(8), 0x61);
                    wr32(&mut r, o, t);
                    wr32(&mut r, o + 4, sz);
                    if t == 0x4242 {
                        wr32(&mut r, o + 8, 0);
                        wr32(&mut r, o + 12, 8);
                    }
                    // payloads that read like the header of a specified tag: (string, 640) and (memory map, 24)
                    if t == 0x4243 {
                        wr32(&mut r, o + 8, 1);
                        wr32(&mut r, o + 12, 640);
                    }
                    if t == 0x4244 {
                        wr32(&mut r, o + 8, 6);
                        wr32(&mut r, o + 12, 24);
                    }
                }
                match tail {
                    0 => r.extend_from_slice(&[0, 0, 0, 0, 8, 0, 0, 0]),
                    1 => r.extend_from_slice(&[1, 0, 0, 0, 8, 0, 0, 0]),
                    _ => {}
                }
                let n = r.len() as u32;
                wr32(&mut r, 0, n);
                regions.push(r);
            }
        }
    }
    for mid in [8usize, 32008, 65520] {
        let mut r = vec![0x61u8; 65536];
        wr32(&mut r, 0, 65536);
        wr32(&mut r, 4, 0);
        // [custom up to mid][end tag][custom up to the tail][end tag]
        if mid > 8 {
            wr32(&mut r, 8, 0x1337);
            wr32(&mut r, 12, (mid - 8) as u32);
        }
        wr32(&mut r, mid, 0);
        wr32(&mut r, mid + 4, 8);
        if mid + 8 < 65528 {
            wr32(&mut r, mid + 8, 0x1337);
            wr32(&mut r, mid + 12, (65528 - mid - 8) as u32);
        }
        wr32(&mut r, 65528, 0);
        wr32(&mut r, 65532, 8);
        regions.push(r);
    }
    for r in regions {
        let total = r.len();
        let describe = || J::obj().set("part", "bodies").set("total_size_word", total).set("region", J::hex(&r[..total.min(96)]));
        ctx.leaf(describe, |ctx| {
            arena.fill(0xB7);
            let p = arena.place_right(&r);
            let expected = load_verdict(&r, total);
            observe(ctx, p, expected, total);
            ctx.state_direct();
            ctx.nontrivial();
        });
    }
}

/// The region's address is an input too: regions that end exactly at, start exactly at, or straddle a multiple of
/// 4 GiB (and 2^47 - 64 KiB is left alone: not mappable everywhere).
fn addresses(ctx: &mut Ctx) {
    ctx.bound("addresses", "regions of 16, 24, 32 and 4096 bytes (valid and invalid end tag) that end exactly at 8 GiB, start exactly at 12 GiB, or straddle 12 GiB by 8 / 16 bytes; the verdict and the reported addresses must not depend on where the region lies");
    const B1: usize = 2 << 32;
    const B2: usize = 3 << 32;
    let a1 = Arena::new_ending_at(2, B1);
    let a2 = Arena::new_ending_at(4, B2 + 2 * arena::PAGE);
    for total in [16usize, 24, 32, 4096] {
        for valid_end in [true, false] {
            for place in 0..4 {
                let describe = || J::obj().set("part", "addresses").set("total_size_word", total).set("valid_end_tag", valid_end).set("placement", ["ends at 8 GiB", "starts at 12 GiB", "straddles 12 GiB by 8 bytes", "straddles 12 GiB by 16 bytes"][place]);
                ctx.leaf(describe, |ctx| {
                    ctx.state_direct();
                    let mut r = vec![0x61u8; total];
                    wr32(&mut r, 0, total as u32);
                    wr32(&mut r, 4, 0);
                    wr32(&mut r, total - 8, 0);
                    wr32(&mut r, total - 4, if valid_end { 8 } else { 9 });
                    let p = match place {
                        0 => a1.as_ref().map(|a| { a.fill(0xB7); a.place_right(&r) }),
                        _ => a2.as_ref().map(|a| {
                            a.fill(0xB7);
                            let boundary = B2 - a.base() as usize;
                            let off = match place { 1 => boundary, 2 => boundary - (total - 8), _ => boundary - (total - 16).min(boundary) };
                            a.place_at(off, &r)
                        }),
                    };
                    match p {
                        None => ctx.class("address:range-not-available"),
                        Some(p) => {
                            ctx.nontrivial();
                            ctx.class("address:placed");
                            observe(ctx, p, load_verdict(&r, total), total);
                        }
                    }
                });
            }
        }
    }
}

/// Boundary values and the specification's magic numbers as the total-size word (with the reserved word over the
/// architecture values of the header format too): values a special case would be keyed on.
fn special_sizes(ctx: &mut Ctx) {
    let arena = Arena::new_sparse((1usize << 32) / arena::PAGE + 1);
    ctx.bound("special_sizes", "total-size word over every EDGE32 value above 1 MiB (incl. 0xE85250D6 and 0x36D76289) and each rounded down to a multiple of 8, x reserved word {0, 4, 8, 0xFFFFFFFF} x valid / invalid end tag; total-size words made of one repeated byte (0x01010101 .. 0xFFFFFFFF, memory-fill patterns) x reserved word {0, 4, 8, 0xFFFFFFFF, the same word, its complement}; region physically present in a sparse 4 GiB arena");
    let mut totals: Vec<usize> = vec![];
    for &e in EDGE32.iter() {
        if e as usize > (1 << 20) {
            for t in [e as usize, e as usize & !7] {
                if !totals.contains(&t) && t >= 16 {
                    totals.push(t);
                }
            }
        }
    }
    // memory-fill patterns: both header words made of one repeated byte (freed / uninitialised / poisoned memory)
    let nspecial = totals.len();
    for b in 1..=255usize {
        totals.push(b * 0x0101_0101);
    }
    for (ti, total) in totals.into_iter().enumerate() {
        let t32 = total as u32;
        for res in [0u32, 4, 8, 0xFFFF_FFFF, t32, !t32] {
            if ti < nspecial && (res == t32 || res == !t32) {
                continue;
            }
            for valid_end in [true, false] {
                let describe = || J::obj().set("part", "special_sizes").set("total_size_word", total).set("reserved_word", res).set("valid_end_tag", valid_end);
                ctx.leaf(describe, |ctx| {
                    let span = round8(total);
                    let p = unsafe { arena.end().sub(span) };
                    let hdr: &mut [u8] = unsafe { std::slice::from_raw_parts_mut(p, 8) };
                    wr32(hdr, 0, total as u32);
                    wr32(hdr, 4, res);
                    let tail: &mut [u8] = unsafe { std::slice::from_raw_parts_mut(p.add((total & !7) - 8), 8) };
                    wr32(tail, 0, 0);
                    wr32(tail, 4, if valid_end { 8 } else { 9 });
                    let expected = if total % 8 != 0 { V::Padding } else if valid_end { V::Ok } else { V::NoEnd };
                    observe(ctx, p, expected, total);
                    ctx.state_direct();
                    ctx.nontrivial();
                });
            }
        }
    }
}

/// What lies in front of and behind the declared region is not part of it: the verdict is a function of the region's
/// bytes whatever the neighbouring memory holds (an end-tag image, zeros, another header, a tag header).
fn surroundings(ctx: &mut Ctx, arena: &Arena) {
    ctx.bound("surroundings", "regions (no payload; one string tag; one custom tag; two tags) x last 8 bytes {end tag, non-end tag, none} placed 8, 16, 24 and 4104 bytes in front of the guard page, x the 8..24 bytes behind the region and the 8 bytes in front of it drawn from {end-tag image, zeros, 0xB7 fill, a (type 1, size 8) header, a boot-information header image (16, 0)}: the verdict and accessors depend on the region's bytes only");
    let images: [[u8; 8]; 5] = [[0, 0, 0, 0, 8, 0, 0, 0], [0; 8], [0xB7; 8], [1, 0, 0, 0, 8, 0, 0, 0], [16, 0, 0, 0, 0, 0, 0, 0]];
    let bodies: [&[(u32, u32)]; 4] = [&[], &[(1, 13)], &[(0x1337, 8)], &[(1, 13), (0x1337, 24)]];
    for (bi, body) in bodies.iter().enumerate() {
        for tail in 0..3 {
            let mut r = vec![0u8; 8];
            for &(t, sz) in body.iter() {
                let o = r.len();
                r.resize(o + round8(sz as usize), 0x61);
                wr32(&mut r, o, t);
                wr32(&mut r, o + 4, sz);
            }
            match tail {
                0 => r.extend_from_slice(&[0, 0, 0, 0, 8, 0, 0, 0]),
                1 => r.extend_from_slice(&[1, 0, 0, 0, 8, 0, 0, 0]),
                _ => {}
            }
            let n = r.len() as u32;
            wr32(&mut r, 0, n);
            for gap in [8usize, 16, 24, 4104] {
                for behind in 0..5 {
                    for front in 0..5 {
                        let total = r.len();
                        let describe = || J::obj().set("part", "surroundings").set("body", bi).set("tail", tail).set("bytes_between_region_and_guard", gap).set("image_behind", J::hex(&images[behind])).set("image_in_front", J::hex(&images[front])).set("region", J::hex(&r));
                        ctx.leaf(describe, |ctx| {
                            arena.fill(0xB7);
                            let off = arena.len() - gap - total;
                            arena.place_at(off - 8, &images[front]);
                            let p = arena.place_at(off, &r);
                            let mut o = off + total;
                            while o + 8 <= arena.len() && o < off + total + 24 {
                                arena.place_at(o, &images[behind]);
                                o += 8;
                            }
                            observe(ctx, p, load_verdict(&r, total), total);
                            ctx.state_direct();
                            ctx.nontrivial();
                        });
                    }
                }
            }
        }
    }
}

/// load does not look at the tags: a tag of a specified type whose size is smaller than that type's fixed part (or
/// otherwise unusable) makes the typed getter fail later, not load.
fn known_types(ctx: &mut Ctx, arena: &Arena) {
    ctx.bound("known_types", "regions holding one tag of every type 1..=22 with size in {8, 12, 16, 20, 24, 32} (mostly smaller than the type's fixed part), as the first tag, behind a string tag, or twice; with and without a valid end tag");
    for typ in 1u32..=22 {
        for sz in [8u32, 12, 16, 20, 24, 32] {
            for pos in 0..3 {
                for valid_end in [true, false] {
                    let describe = || J::obj().set("part", "known_types").set("type", typ).set("size", sz).set("position", ["first", "behind a string tag", "twice"][pos]).set("valid_end_tag", valid_end);
                    ctx.leaf(describe, |ctx| {
                        let mut r = vec![0u8; 8];
                        let mut push = |r: &mut Vec<u8>, t: u32, s: u32| {
                            let o = r.len();
                            r.resize(o + round8(s as usize), 0);
                            wr32(r, o, t);
                            wr32(r, o + 4, s);
                        };
                        if pos == 1 {
                            push(&mut r, 1, 13);
                        }
                        push(&mut r, typ, sz);
                        if pos == 2 {
                            push(&mut r, typ, sz);
                        }
                        push(&mut r, if valid_end { 0 } else { 1 }, 8);
                        let n = r.len();
                        wr32(&mut r, 0, n as u32);
                        arena.fill(0xB7);
                        let p = arena.place_right(&r);
                        observe(ctx, p, load_verdict(&r, n), n);
                        ctx.state_direct();
                        ctx.nontrivial();
                    });
                }
            }
        }
    }
}

fn flips(ctx: &mut Ctx, arena: &Arena) {
    for total in [16usize, 24, 4096] {
        let p = unsafe { arena.end().sub(total) };
        for a in 0..64u32 {
            for b in a..64u32 {
                let mut tail: u64 = 8u64 << 32; // type 0, size 8 (little-endian words)
                tail ^= 1u64 << a;
                if b != a {
                    tail ^= 1u64 << b;
                }
                let describe = || J::obj().set("total_size_word", total).set("last8_bytes", format!("{:016x} (valid end tag with bit {} and bit {} flipped)", tail, a, b));
                ctx.leaf(describe, |ctx| {
                    let region: &mut [u8] = unsafe { std::slice::from_raw_parts_mut(p, total) };
                    region[total - 8..].copy_from_slice(&tail.to_le_bytes());
                    wr32(region, 0, total as u32);
                    wr32(region, 4, 0);
                    let expected = load_verdict(region, total);
                    observe(ctx, p, expected, total);
                    ctx.state_direct();
                    ctx.nontrivial();
                });
            }
        }
    }
}

fn main() {
    main_wrap("C02", run);
}
