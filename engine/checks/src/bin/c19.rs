//! C19 - ELF-section iteration decodes 32/64-bit entries in order, inside the tag.
use mbvlib::spec::bi;
use mbvlib::spec::*;
use mbvlib::*;
use multiboot2::{DynSizedStructure, ElfSectionType, ElfSectionsTag, TagHeader};

type Generic = DynSizedStructure<TagHeader>;

const TYPES: [u32; 20] = [
    1, 0, 2, 3, 4, 5, 6, 7, 8, 9, 10, 11, 12, 0x5FFF_FFFF, 0x6000_0000, 0x6FFF_FFFF, 0x7000_0000, 0x7FFF_FFFF,
    0x8000_0000, 0xFFFF_FFFF,
];
// the table does not start with a NUL and one entry uses name index 0 (an index the ELF specification reserves for
// "no name" when the table starts with NUL - which this one does not)
const STRTAB: &[u8] = b"zero\0.text\0.rodata\0.data\0.bss\0.shstrtab\0.symtab\0\0";
const NAMEIDX: [u32; 6] = [5, 0, 11, 19, 25, 2];

fn class(raw: u32) -> Option<ElfSectionType> {
    Some(match raw {
        1 => ElfSectionType::ProgramSection,
        2 => ElfSectionType::LinkerSymbolTable,
        3 => ElfSectionType::StringTable,
        4 => ElfSectionType::RelaRelocation,
        5 => ElfSectionType::SymbolHashTable,
        6 => ElfSectionType::DynamicLinkingTable,
        7 => ElfSectionType::Note,
        8 => ElfSectionType::Uninitialized,
        9 => ElfSectionType::RelRelocation,
        10 => ElfSectionType::Reserved,
        11 => ElfSectionType::DynamicLoaderSymbolTable,
        0x6000_0000..=0x6FFF_FFFF => ElfSectionType::EnvironmentSpecific,
        0x7000_0000..=0x7FFF_FFFF => ElfSectionType::ProcessorSpecific,
        _ => return None,
    })
}

#[derive(Clone, Debug)]
struct Spec {
    layout: u32,
    n: u32,
    entsize: u32,
    shndx: u32,
    b: usize,
    types: Vec<u32>,
}

/// Reference decode of one entry from the section bytes.
#[derive(Debug, PartialEq, Eq, Clone, Copy)]
struct Fields {
    name: u32,
    typ: u32,
    flags: u64,
    addr: u64,
    size: u64,
    align: u64,
}
fn decode(sec: &[u8], o: usize, entsize: u32) -> Fields {
    if entsize == 40 {
        Fields { name: rd32(sec, o), typ: rd32(sec, o + 4), flags: rd32(sec, o + 8) as u64, addr: rd32(sec, o + 12) as u64, size: rd32(sec, o + 20) as u64, align: rd32(sec, o + 32) as u64 }
    } else {
        Fields { name: rd32(sec, o), typ: rd32(sec, o + 4), flags: rd64(sec, o + 8), addr: rd64(sec, o + 16), size: rd64(sec, o + 32), align: rd64(sec, o + 48) }
    }
}

fn build(spec: &Spec, strtab_base: u64) -> Vec<u8> {
    let mut sec = vec![0u8; spec.b];
    for (i, b) in sec.iter_mut().enumerate() {
        *b = marker(i, 9);
    }
    let stride = spec.layout as usize;
    let mut i = 0usize;
    while (i + 1) * stride <= spec.b && i < spec.types.len() {
        let t = spec.types[i];
        let name = NAMEIDX[i % NAMEIDX.len()];
        let e = if spec.layout == 40 {
            bi::enc_shdr32(name, t, 0xABCD_0F00 | ((i as u32 * 3 + 5) & 7), (strtab_base + i as u64) as u32, 0x0000_A100 + i as u32, 0x0000_0311 + 0x111 * i as u32, (i as u32 + 1) % 3, 0xD1 + i as u32, 0x10 << i, 0xE1 + i as u32)
        } else {
            bi::enc_shdr64(name, t, 0xABCD_0F0F_0F0F_0F00 | ((i as u64 * 3 + 5) & 7), strtab_base + i as u64, 0x0000_A100_0000_0000 + i as u64, 0x0000_0311_0000_0000 + 0x111 * i as u64, (i as u32 + 1) % 3, 0xD1 + i as u32, 0x10 << i, 0xE1 + i as u64)
        };
        sec[i * stride..(i + 1) * stride].copy_from_slice(&e);
        i += 1;
    }
    let mut v = bi::enc_elf(spec.n, spec.entsize, spec.shndx, &sec);
    while v.len() % 8 != 0 {
        v.push(0xF5);
    }
    v
}

struct Got {
    raw: u32,
    ty: ElfSectionType,
    flags: u64,
    addr: u64,
    size: u64,
    align: u64,
    alloc: bool,
}

fn exec(ctx: &mut Ctx, arena: &Arena, st: &Arena, spec: &Spec) {
    let strtab_ptr = st.place_right(STRTAB);
    let strtab_base = strtab_ptr as u64;
    let img = build(spec, strtab_base);
    let sec_off = 20usize;
    let fitting = (spec.entsize == 40 || spec.entsize == 64) && (spec.n as u64) * (spec.entsize as u64) <= spec.b as u64;
    let same_layout = spec.entsize == spec.layout;
    let phys = spec.types.len().min(spec.b / spec.layout as usize);
    ctx.under_fills("c19/o5", |ctx, fill| {
        arena.fill(fill);
        let p = arena.place_right(&img);
        let slice: &[u8] = unsafe { std::slice::from_raw_parts(p, img.len()) };
        let sec = &img[sec_off..sec_off + spec.b];
        let tag = Generic::ref_from_slice(slice).unwrap().cast::<ElfSectionsTag>();
        // header accessors
        if let Out::Val((a, b, c)) = ctx.call("fields", || (tag.number_of_sections(), tag.entry_size(), tag.shndx())) {
            if (a, b, c) != (spec.n, spec.entsize, spec.shndx) {
                ctx.violation("c19/header-fields", || format!("number_of_sections/entry_size/shndx = {}/{}/{}, stored {}/{}/{}", a, b, c, spec.n, spec.entsize, spec.shndx));
            }
        }
        let must_work = fitting && (spec.shndx < spec.n || spec.n == 0);
        let must_refuse = !fitting && spec.n > 0;
        let it = ctx.call("sections", || tag.sections());
        let Out::Val(mut it) = it else {
            ctx.ob("sections.panic", 1);
            if must_work && spec.n > 0 {
                ctx.violation("c19/spurious-panic/sections", || format!("sections() panicked on a fitting tag: {:?}", spec));
            } else {
                ctx.class("elf:refused-at-sections");
            }
            return;
        };
        let r = ctx.call("Debug(iter)", || format!("{:?}", it).len());
        if r.is_panic() && must_work {
            ctx.violation("c19/spurious-panic/debug", || format!("Debug of the section iterator panicked on a fitting tag: {:?}", spec));
        }
        let mut k = 0u64; // entry index the next call will look at
        let mut yielded = 0;
        loop {
            if yielded > 12 {
                break; // enough: huge declared counts are cut here (every further step repeats the same shape)
            }
            let _ = ctx.call("len/size_hint", || (it.len(), it.size_hint()));
            let r = ctx.call("next", || {
                it.next().map(|s| {
                    let g = Got { raw: s.section_type_raw(), ty: s.section_type(), flags: s.flags().bits(), addr: s.start_address(), size: s.size(), align: s.addralign(), alloc: s.is_allocated() };
                    (g, s)
                })
            });
            match r {
                Out::Panic => {
                    ctx.ob("next.panic", yielded);
                    if must_work || (fitting && spec.n > 0) {
                        ctx.violation("c19/spurious-panic/next", || format!("next() panicked on a fitting tag after {} items: {:?}", yielded, spec));
                    } else {
                        ctx.class("elf:refused-in-next");
                    }
                    return;
                }
                Out::Val(None) => {
                    ctx.ob("next.none", yielded);
                    if must_refuse {
                        ctx.violation("c19/no-refusal", || format!("iteration ended normally although {} entries of size {} do not fit into {} section bytes: {:?}", spec.n, spec.entsize, spec.b, spec));
                        return;
                    }
                    // fitting (or n == 0): every remaining entry must have been an unused one
                    if fitting {
                        while k < spec.n as u64 {
                            let f = decode(sec, k as usize * spec.entsize as usize, spec.entsize);
                            if class(f.typ).is_some() {
                                ctx.violation("c19/missed-entry", || format!("entry #{} (raw type {:#x}) is in use but was not yielded: {:?}", k, f.typ, spec));
                                return;
                            }
                            k += 1;
                        }
                        ctx.class("elf:complete");
                    } else {
                        ctx.class("elf:empty");
                    }
                    break;
                }
                Out::Val(Some((g, s))) => {
                    ctx.ob("item.raw", g.raw as u64);
                    ctx.ob("item.size", g.size);
                    ctx.ob("item.flags", g.flags);
                    // which entry is this? the first in-use one at or after k, by the reference
                    let es = spec.entsize as u64;
                    if !(spec.entsize == 40 || spec.entsize == 64) {
                        ctx.violation("c19/item-with-bad-entsize", || format!("an item was yielded with entry size {}: {:?}", spec.entsize, spec));
                        return;
                    }
                    let mut found = None;
                    while k < spec.n as u64 && (k + 1) * es <= spec.b as u64 {
                        let f = decode(sec, (k * es) as usize, spec.entsize);
                        k += 1;
                        if class(f.typ).is_some() {
                            found = Some((k - 1, f));
                            break;
                        }
                    }
                    let Some((idx, f)) = found else {
                        ctx.violation("c19/out-of-tag-item", || format!("item #{} yielded (raw type {:#x}) but no further in-use entry lies inside the {} section bytes / {} declared entries: {:?}", yielded, g.raw, spec.b, spec.n, spec));
                        return;
                    };
                    let want_ty = class(f.typ).unwrap();
                    if g.raw != f.typ || g.ty != want_ty || g.flags != (f.flags & 7) || g.addr != f.addr || g.size != f.size || g.align != f.align || g.alloc != (f.flags & 2 != 0) {
                        ctx.violation(&format!("c19/decode/elf{}", if spec.entsize == 40 { 32 } else { 64 }), || {
                            format!("entry #{}: got raw {:#x} {:?} flags {:#x} addr {:#x} size {:#x} align {:#x} alloc {}; stored {:x?}", idx, g.raw, g.ty, g.flags, g.addr.wrapping_sub(strtab_base), g.size, g.align, g.alloc, Fields { addr: f.addr.wrapping_sub(strtab_base), ..f })
                        });
                        return;
                    }
                    if same_layout && (idx as usize) < phys {
                        if let Out::Val(e) = ctx.call("end_address", || s.end_address()) {
                            if e != f.addr + f.size {
                                ctx.violation("c19/end_address", || "end_address != addr + size".into());
                            }
                        }
                        // names: through the designated string-table entry
                        if fitting && (spec.shndx as usize) < phys && spec.shndx < spec.n {
                            let r = ctx.call("name", || s.name().map(|n| (n.as_ptr() as u64, n.to_string())));
                            let start = spec.shndx as usize + f.name as usize;
                            let want: &[u8] = &STRTAB[start..start + STRTAB[start..].iter().position(|&b| b == 0).unwrap()];
                            match r {
                                Out::Val(Ok((ptr, n))) if n.as_bytes() == want && ptr == strtab_base + start as u64 => ctx.class("elf:name-resolved"),
                                Out::Val(other) => ctx.violation("c19/name", || format!("entry #{}: name() = {:?}, the designated string table (entry {}) gives {:?}", idx, other.map(|x| x.1), spec.shndx, String::from_utf8_lossy(want))),
                                Out::Panic => ctx.violation("c19/spurious-panic/name", || format!("name() panicked with a valid string-table index: {:?}", spec)),
                            }
                        } else if fitting && spec.shndx >= spec.n && (spec.shndx as u64 + 1) * spec.entsize as u64 > spec.b as u64 {
                            // the designated string-table entry reaches outside the tag: must be refused when a
                            // name is asked for (an index beyond the count but still inside the tag's bytes is
                            // not constrained by the property: name() is not called then)
                            match ctx.call("name(out-of-table)", || s.name().map(|n| n.len())) {
                                Out::Panic => ctx.class("elf:name-refused"),
                                Out::Val(x) => ctx.violation("c19/name-outside-table", || format!("name() returned {:?} although the string-table index {} is outside the {} entries", x, spec.shndx, spec.n)),
                            }
                        }
                    }
                    let _ = ctx.call("Debug(section)", || format!("{:?}", s).len());
                    yielded += 1;
                }
            }
        }
        // iterator protocol on fitting tags: clones, collected items used later, adapters, exhaustion
        if must_work {
            let want: Vec<Fields> = (0..spec.n as usize).map(|k| decode(sec, k * spec.entsize as usize, spec.entsize)).filter(|f| class(f.typ).is_some()).collect();
            let r = ctx.call("protocol", || {
                let mut problems: Vec<String> = vec![];
                let grab = |s: &multiboot2::ElfSection| (s.section_type_raw(), s.flags().bits(), s.start_address(), s.size(), s.addralign());
                let wantv: Vec<(u32, u64, u64, u64, u64)> = want.iter().map(|f| (f.typ, f.flags & 7, f.addr, f.size, f.align)).collect();
                // (1) items collected first, decoded afterwards
                let all: Vec<multiboot2::ElfSection> = tag.sections().collect();
                let got: Vec<_> = all.iter().map(grab).collect();
                if got != wantv {
                    problems.push(format!("collected sections decode to {:x?}, reference {:x?}", got, wantv));
                }
                // (2) a clone taken after k items continues with the same suffix; the original is not disturbed
                for k in 0..=wantv.len().min(3) {
                    let mut a = tag.sections();
                    for _ in 0..k {
                        a.next();
                    }
                    let b = a.clone();
                    let _ = format!("{:?}", a);
                    let ra: Vec<_> = a.map(|s| grab(&s)).collect();
                    let rb: Vec<_> = b.map(|s| grab(&s)).collect();
                    // adapters asked in that state (on clones), and on the state they leave behind
                    let mut c = tag.sections();
                    for _ in 0..k {
                        c.next();
                    }
                    let rest = wantv.len() - k.min(wantv.len());
                    let cnt = c.clone().count();
                    let last = c.clone().last().map(|s| grab(&s));
                    let folded: Vec<_> = c.clone().fold(vec![], |mut v, s| { v.push(grab(&s)); v });
                    let (lo, hi) = c.size_hint();
                    if cnt != rest || last != (if rest > 0 { wantv.last().copied() } else { None }) || folded != wantv[k.min(wantv.len())..] || hi.is_some_and(|h| h < rest) || c.len() < rest {
                        // (the lower bound counts unused entries too and is not constrained by the property)
                        let _ = lo;
                        problems.push(format!("after {} items: count() = {}, last() = {:x?}, fold sees {} items, size_hint ({}, {:?}), len {}; reference has {} items left", k, cnt, last, folded.len(), lo, hi, c.len(), rest));
                    }
                    if ra != wantv[k.min(wantv.len())..] || rb != ra {
                        problems.push(format!("after {} items: original continues with {} items, clone with {}, reference {}", k, ra.len(), rb.len(), wantv.len() - k.min(wantv.len())));
                    }
                }
                // (3) adapters a type may override
                for k in 0..=wantv.len() + 1 {
                    let g = tag.sections().nth(k).map(|s| grab(&s));
                    if g != wantv.get(k).copied() {
                        problems.push(format!("nth({}) = {:x?}, reference {:x?}", k, g, wantv.get(k)));
                    }
                }
                if tag.sections().count() != wantv.len() {
                    problems.push(format!("count() = {}, reference {}", tag.sections().count(), wantv.len()));
                }
                if tag.sections().last().map(|s| grab(&s)) != wantv.last().copied() {
                    problems.push("last() differs from the last yielded item".to_string());
                }
                // (4) exhausted stays exhausted
                let mut e = tag.sections();
                while e.next().is_some() {}
                if e.next().is_some() || e.next().is_some() {
                    problems.push("next() after None yields an item".to_string());
                }
                if e.clone().last().is_some() || e.clone().count() != 0 || e.clone().nth(0).is_some() {
                    problems.push("a drained iterator yields something through last() / count() / nth(0)".to_string());
                }
                problems
            });
            match r {
                Out::Val(p) if p.is_empty() => ctx.class("elf:protocol-ok"),
                Out::Val(p) => ctx.violation("c19/protocol", || format!("{} ({:?})", p.join("; "), spec)),
                Out::Panic => ctx.violation("c19/spurious-panic/protocol", || format!("an iterator adapter panicked on a fitting tag: {:?}", spec)),
            }
        }
        let r = ctx.call("Debug(tag)", || format!("{:?}", tag).len());
        if r.is_panic() && must_work {
            ctx.violation("c19/spurious-panic/debug-tag", || format!("Debug of the tag panicked on a fitting tag: {:?}", spec));
        }
    });
}

fn jspec(body: &str, s: &Spec) -> J {
    J::obj()
        .set("body", body)
        .set("built_layout", s.layout)
        .set("num", s.n)
        .set("entsize", s.entsize)
        .set("shndx", s.shndx)
        .set("section_bytes", s.b)
        .set("raw_types", J::Arr(s.types.iter().map(|&t| J::from(t)).collect()))
}

fn run(ctx: &mut Ctx) {
    let arena = Arena::new(2);
    let st = Arena::new_low(1);
    st.fill(0xEE);
    let budget = if ctx.quick() { 1 } else if ctx.dev_profile() { 2 } else { 3 };
    let bmax = if ctx.quick() { 2 * 64 + 9 } else { 4 * 64 + 9 };
    ctx.bound("deviations", format!("well-formed default (layout 40 or 64, 2 or 3 entries, string table = last entry, exactly fitting) with up to {} deviating fields, each over its whole alphabet: num 0..=5 + EDGE32, entsize 0..=128 + EDGE32, shndx 0..=5 + EDGE32, section byte length 0..={}, raw type of entry 0 / entry 1 over 20 type classes; tag flush against a guard page, fills A/B; string table in a second arena below 2 GiB, flush against a guard page", budget, bmax));
    let mut ns: Vec<u32> = (0..=5).collect();
    ns.extend(EDGE32.iter().filter(|&&e| e > 5));
    let mut es: Vec<u32> = (0..=128).collect();
    es.extend(EDGE32.iter().filter(|&&e| e > 128));
    let mut xs: Vec<u32> = (0..=5).collect();
    xs.extend(EDGE32.iter().filter(|&&e| e > 5));
    for layout in [64u32, 40] {
        for n0 in [2u32, 3] {
            enumerate(budget, |ch| {
                let mut s = Spec { layout, n: n0, entsize: layout, shndx: n0 - 1, b: (n0 * layout) as usize, types: vec![1, 3, 8] };
                let c = ch.pick_dev(ns.len() as u32 + 1);
                if c > 0 {
                    s.n = ns[c as usize - 1];
                }
                let c = ch.pick_dev(es.len() as u32 + 1);
                if c > 0 {
                    s.entsize = es[c as usize - 1];
                }
                let c = ch.pick_dev(xs.len() as u32 + 1);
                if c > 0 {
                    s.shndx = xs[c as usize - 1];
                }
                let c = ch.pick_dev(bmax as u32 + 2);
                if c > 0 {
                    s.b = c as usize - 1;
                }
                let c = ch.pick_dev(TYPES.len() as u32);
                s.types[0] = TYPES[c as usize];
                let c = ch.pick_dev(TYPES.len() as u32);
                s.types[1] = if c == 0 { 3 } else { TYPES[c as usize] };
                let s2 = s.clone();
                ctx.leaf(|| jspec("deviation", &s2), |ctx| {
                    ctx.state_direct();
                    ctx.nontrivial();
                    exec(ctx, &arena, &st, &s);
                });
            });
        }
    }
    // skip patterns: every arrangement of in-use / unused / unknown entries over 3 and 4 entries
    ctx.bound("skip_patterns", "every arrangement of {in-use (1), unused (0), unknown (12), processor-specific (0x70000000)} over 3 and 4 entries, both layouts, string table = entry 0 and = last entry");
    for layout in [64u32, 40] {
        for n in [3u32, 4] {
            for code in 0..4u32.pow(n) {
                let mut types = vec![];
                let mut c = code;
                for _ in 0..n {
                    types.push([1u32, 0, 12, 0x7000_0000][(c % 4) as usize]);
                    c /= 4;
                }
                for shndx in [0, n - 1] {
                    let s = Spec { layout, n, entsize: layout, shndx, b: (n * layout) as usize, types: types.clone() };
                    let s2 = s.clone();
                    ctx.leaf(|| jspec("skip-pattern", &s2), |ctx| {
                        ctx.state_direct();
                        ctx.nontrivial();
                        exec(ctx, &arena, &st, &s);
                    });
                }
            }
        }
    }
    // fitting space: all type classes per entry
    let nmax = if ctx.quick() { 2 } else { 3 };
    ctx.bound("fitting", format!("every fitting tag with 0..={} entries, both layouts, every raw type class per entry (20 classes), every string-table index 0..={}, 0 or 9 spare section bytes", nmax, nmax));
    for layout in [64u32, 40] {
        for n in 0..=nmax as u32 {
            let combos = (TYPES.len() as u64).pow(n);
            for code in 0..combos {
                let mut types = vec![];
                let mut c = code;
                for _ in 0..n {
                    types.push(TYPES[(c % TYPES.len() as u64) as usize]);
                    c /= TYPES.len() as u64;
                }
                for shndx in 0..=nmax as u32 {
                    for spare in [0usize, 9] {
                        let s = Spec { layout, n, entsize: layout, shndx, b: (n * layout) as usize + spare, types: types.clone() };
                        let s2 = s.clone();
                        ctx.leaf(|| jspec("fitting", &s2), |ctx| {
                            ctx.state_direct();
                            ctx.nontrivial();
                            exec(ctx, &arena, &st, &s);
                        });
                    }
                }
            }
        }
    }
    large(ctx);
}

/// Counter boundaries: many entries, long names.
fn large(ctx: &mut Ctx) {
    let big = Arena::new(1100);
    let st = Arena::new_low(20);
    let counts: Vec<u32> = if ctx.quick() { vec![255, 256, 257, 4096, 65279, 65280, 65536, 65537] } else { vec![254, 255, 256, 257, 1023, 1024, 1025, 4095, 4096, 4097, 32767, 32768, 65279, 65280, 65281, 65534, 65535, 65536, 65537, 70000] };
    ctx.bound("large_counts", format!("N in {:?} entries, both layouts, all unused (type 0) except entries 0, 1, N/2, N-2 (in use) and N-1 (the string table); the whole iteration (collect, count, last, len) against the reference list, names resolved", counts));
    for layout in [64u32, 40] {
        for &n in &counts {
            let describe = || J::obj().set("part", "large_counts").set("layout", layout).set("entries", n);
            ctx.leaf(describe, |ctx| {
                ctx.state_direct();
                ctx.nontrivial();
                st.fill(0xEE);
                let strtab_base = st.place_right(STRTAB) as u64;
                let stride = layout as usize;
                let mut sec = vec![0u8; n as usize * stride];
                let inuse: Vec<u32> = { let mut v = vec![0, 1, n / 2, n - 2, n - 1]; v.sort_unstable(); v.dedup(); v };
                for &i in &inuse {
                    let t = if i == n - 1 { 3 } else { 1 };
                    let name = NAMEIDX[i as usize % NAMEIDX.len()];
                    let e = if layout == 40 { bi::enc_shdr32(name, t, 2, if i == n - 1 { strtab_base as u32 } else { 0x1000 + i }, 0, 0x10 + i, 0, 0, 4, 0) } else { bi::enc_shdr64(name, t, 2, if i == n - 1 { strtab_base } else { 0x1_0000_1000 + i as u64 }, 0, 0x10 + i as u64, 0, 0, 4, 0) };
                    sec[i as usize * stride..(i as usize + 1) * stride].copy_from_slice(&e);
                }
                let mut img = bi::enc_elf(n, layout, n - 1, &sec);
                while img.len() % 8 != 0 {
                    img.push(0xF5);
                }
                big.fill(arena::FILL_A);
                let p = big.place_right(&img);
                let slice: &[u8] = unsafe { std::slice::from_raw_parts(p, img.len()) };
                let tag = Generic::ref_from_slice(slice).unwrap().cast::<ElfSectionsTag>();
                let r = ctx.call("sections/collect/count/last/len", || {
                    let all: Vec<(u32, u64, u64, String)> = tag.sections().map(|s| (s.section_type_raw(), s.start_address(), s.size(), s.name().map(|x| x.to_string()).unwrap_or_else(|_| "<utf8>".into()))).collect();
                    let cnt = tag.sections().count();
                    let last = tag.sections().last().map(|s| s.start_address());
                    let len = tag.sections().len();
                    (all, cnt, last, len)
                });
                let want: Vec<(u32, u64, u64, String)> = inuse
                    .iter()
                    .map(|&i| {
                        let start = NAMEIDX[i as usize % NAMEIDX.len()] as usize;
                        let nm = &STRTAB[start..start + STRTAB[start..].iter().position(|&b| b == 0).unwrap()];
                        let addr = if i == n - 1 { if layout == 40 { strtab_base as u32 as u64 } else { strtab_base } } else if layout == 40 { 0x1000 + i as u64 } else { 0x1_0000_1000 + i as u64 };
                        (if i == n - 1 { 3 } else { 1 }, addr, 0x10 + i as u64, String::from_utf8_lossy(nm).to_string())
                    })
                    .collect();
                match r {
                    Out::Panic => ctx.violation("c19/large/spurious-panic", || format!("iterating a fitting tag of {} entries of {} bytes panicked", n, layout)),
                    Out::Val((all, cnt, last, len)) => {
                        ctx.ob("large.items", all.len() as u64);
                        if all != want {
                            ctx.violation("c19/large/items", || format!("{} entries of {} bytes: yielded {} sections {:x?}, reference {:x?}", n, layout, all.len(), all.iter().take(6).collect::<Vec<_>>(), want));
                        } else if cnt != want.len() || last != want.last().map(|w| w.1) || len < want.len() || len > n as usize {
                            ctx.violation("c19/large/adapters", || format!("{} entries: count() {}, last() {:x?}, len() {}; reference has {} in-use sections", n, cnt, last, len, want.len()));
                        } else {
                            ctx.class("elf:large");
                        }
                    }
                }
            });
        }
    }
    // address + size arithmetic in full width: 32-bit entries whose end crosses 2^32, 64-bit entries whose end crosses
    // 2^32 / lies just below 2^64 (sums that do not fit 64 bits are left out: DESIGN 6)
    ctx.bound("end_addresses", "one in-use entry with (address, size) over {(0xFFFFF000, 0x1000), (0xFFFFFFFF, 1), (0x80000000, 0x80000000), (0xFFFFFFFF, 0xFFFFFFFF), (0, 0), (0x7FFFFFFF, 1)} in both layouts, and (2^64 - 0x2000, 0x1000), (0xFFFFFFFF_00000000, 0xFFFFFFFF) in the 64-bit one: start_address, size and end_address = address + size computed in 64 bits");
    {
        let pairs32: [(u64, u64); 6] = [(0xFFFF_F000, 0x1000), (0xFFFF_FFFF, 1), (0x8000_0000, 0x8000_0000), (0xFFFF_FFFF, 0xFFFF_FFFF), (0, 0), (0x7FFF_FFFF, 1)];
        let pairs64: [(u64, u64); 2] = [(0xFFFF_FFFF_FFFF_E000, 0x1000), (0xFFFF_FFFF_0000_0000, 0xFFFF_FFFF)];
        for layout in [40u32, 64] {
            let mut pairs: Vec<(u64, u64)> = pairs32.to_vec();
            if layout == 64 {
                pairs.extend(pairs64);
            }
            for (addr, size) in pairs {
                let describe = || J::obj().set("part", "end_addresses").set("layout", layout).set("address", format!("{:#x}", addr)).set("size", format!("{:#x}", size));
                ctx.leaf(describe, |ctx| {
                    ctx.state_direct();
                    ctx.nontrivial();
                    let e = if layout == 40 { bi::enc_shdr32(0, 1, 2, addr as u32, 0, size as u32, 0, 0, 4, 0) } else { bi::enc_shdr64(0, 1, 2, addr, 0, size, 0, 0, 4, 0) };
                    let mut img = bi::enc_elf(1, layout, 5, &e);
                    while img.len() % 8 != 0 {
                        img.push(0xF5);
                    }
                    big.fill(arena::FILL_A);
                    let p = big.place_right(&img);
                    let slice: &[u8] = unsafe { std::slice::from_raw_parts(p, img.len()) };
                    let tag = Generic::ref_from_slice(slice).unwrap().cast::<ElfSectionsTag>();
                    let r = ctx.call("section.end_address", || tag.sections().next().map(|s| (s.start_address(), s.size(), s.end_address())));
                    match r {
                        Out::Val(Some((a, sz, end))) => {
                            ctx.ob("end.a", a);
                            ctx.ob("end.e", end);
                            if (a, sz, end) != (addr, size, addr + size) {
                                ctx.violation("c19/end-address", || format!("ELF{} entry at {:#x} of {:#x} bytes: start {:#x}, size {:#x}, end {:#x}; expected end {:#x}", if layout == 40 { 32 } else { 64 }, addr, size, a, sz, end, addr + size));
                            } else {
                                ctx.class("elf:end-address");
                            }
                        }
                        Out::Val(None) => ctx.violation("c19/end-address", || "the in-use entry was not yielded".into()),
                        Out::Panic => ctx.violation("c19/end-address/spurious-panic", || format!("end_address() panicked for address {:#x} size {:#x} (the sum fits 64 bits)", addr, size)),
                    }
                });
            }
        }
    }
    // the size the string-table section reports for itself is not consulted by name resolution: names resolve the
    // same whatever it says (0, smaller than a name index, exact, huge)
    ctx.bound("strtab_reported_size", "two in-use sections + the string table, both layouts, the string-table header's own size field over {0, 1, 5, 6, 11, exact, exact + 1, 0xFFFFFFFF} x name indices {0, 5, 11, 19}: names resolve through the table's address whatever size it reports");
    for layout in [64u32, 40] {
        for &sz in &[0u64, 1, 5, 6, 11, STRTAB.len() as u64, STRTAB.len() as u64 + 1, 0xFFFF_FFFF] {
            for &ni in &[0u32, 5, 11, 19] {
                let describe = || J::obj().set("part", "strtab_reported_size").set("layout", layout).set("reported_size", sz).set("name_index", ni);
                ctx.leaf(describe, |ctx| {
                    ctx.state_direct();
                    ctx.nontrivial();
                    st.fill(0xEE);
                    let base = st.place_right(STRTAB) as u64;
                    let stride = layout as usize;
                    let mut sec = vec![0u8; 3 * stride];
                    for i in 0..3usize {
                        let (name, t, addr, size) = if i == 2 { (30u32, 3u32, base, sz) } else { (if i == 0 { ni } else { 5 }, 1, 0x1000 + i as u64, 0x20) };
                        let e = if layout == 40 { bi::enc_shdr32(name, t, 2, addr as u32, 0, size as u32, 0, 0, 4, 0) } else { bi::enc_shdr64(name, t, 2, addr, 0, size, 0, 0, 4, 0) };
                        sec[i * stride..(i + 1) * stride].copy_from_slice(&e);
                    }
                    let mut img = bi::enc_elf(3, layout, 2, &sec);
                    while img.len() % 8 != 0 {
                        img.push(0xF5);
                    }
                    big.fill(arena::FILL_A);
                    let p = big.place_right(&img);
                    let slice: &[u8] = unsafe { std::slice::from_raw_parts(p, img.len()) };
                    let tag = Generic::ref_from_slice(slice).unwrap().cast::<ElfSectionsTag>();
                    let r = ctx.call("sections + names", || tag.sections().map(|s| s.name().map(|x| x.to_string()).unwrap_or_else(|_| "<utf8>".into())).collect::<Vec<_>>());
                    let nm = |start: usize| String::from_utf8_lossy(&STRTAB[start..start + STRTAB[start..].iter().position(|&b| b == 0).unwrap()]).to_string();
                    let want = vec![nm(ni as usize), nm(5), nm(30)];
                    match r {
                        Out::Val(got) if got == want => ctx.class("elf:strtab-size-ignored"),
                        Out::Val(got) => ctx.violation("c19/strtab-size/names", || format!("string table reporting size {}: names {:?}, expected {:?}", sz, got, want)),
                        Out::Panic => ctx.violation("c19/strtab-size/spurious-panic", || format!("name() panicked with a string table that reports size {} and name index {}", sz, ni)),
                    }
                });
            }
        }
    }
    // entry sizes that equal a legal one modulo 2^16 (or 2^8): neither layout, so the first in-use entry is refused
    ctx.bound("entry_sizes_modulo", "entry size in {40, 64} + k * 2^16 for k in 1..=2, + 256, + 2^24 (the last one on a tag that only holds two such strides on paper) x 1 or 2 entries physically present at that stride, first header in use: sections() or the first next() must end in a controlled panic (the entry size is neither 40 nor 64)");
    {
        let wide = Arena::new(70);
        for base_sz in [40u32, 64] {
            for add in [256u32, 1 << 16, 2 << 16, 1 << 24] {
                for n in [1u32, 2] {
                    let es = base_sz + add;
                    let describe = || J::obj().set("part", "entry_sizes_modulo").set("entry_size", es).set("entries", n);
                    ctx.leaf(describe, |ctx| {
                        ctx.state_direct();
                        ctx.nontrivial();
                        // physically present when it fits the arena; otherwise the tag is too short and must be refused as well
                        let phys = (n as usize * es as usize).min(wide.len() - 64);
                        let mut sec = vec![0u8; phys];
                        for k in 0..n as usize {
                            let o = k * es as usize;
                            if o + 64 <= sec.len() {
                                let e = if base_sz == 40 { bi::enc_shdr32(1, 1, 2, 0x1000, 0, 0x10, 0, 0, 4, 0) } else { bi::enc_shdr64(1, 1, 2, 0x1000, 0, 0x10, 0, 0, 4, 0) };
                                sec[o..o + e.len()].copy_from_slice(&e);
                            }
                        }
                        let mut img = bi::enc_elf(n, es, 0, &sec);
                        while img.len() % 8 != 0 {
                            img.push(0);
                        }
                        wide.fill(arena::FILL_A);
                        let p = wide.place_right(&img);
                        let slice: &[u8] = unsafe { std::slice::from_raw_parts(p, img.len()) };
                        let tag = Generic::ref_from_slice(slice).unwrap().cast::<ElfSectionsTag>();
                        let r = ctx.call("sections + first items", || tag.sections().take(3).map(|s| (s.section_type_raw(), s.start_address())).collect::<Vec<_>>());
                        match r {
                            Out::Panic => ctx.class("elf:entry-size-refused"),
                            Out::Val(got) => ctx.violation("c19/entry-size-modulo", || format!("entry size {} ({} entries): the iterator yields {:x?}; an entry size that is neither 40 nor 64 must be refused by a controlled panic", es, n, got)),
                        }
                    });
                }
            }
        }
    }
    // names on the far side of 4 GiB: a string table whose address lies just below 2^32 and a name index that carries
    // the sum across it (the table is mapped on both sides of the boundary)
    ctx.bound("names_across_4gib", "string table mapped across the 4 GiB boundary (pages at 2^32 - 8 KiB .. 2^32 + 8 KiB): table address 2^32 - {256, 16, 1} x name index that puts the name just below, across and just above 2^32, both layouts: the name is read at address + index computed in 64 bits");
    {
        let span = Arena::new_ending_at(4, (1usize << 32) + 2 * arena::PAGE);
        let skip = span.is_none();
        for layout in [40u32, 64] {
            for back in [256u64, 16, 1] {
                for ni in [0u32, back as u32 - 1, back as u32, back as u32 + 1, back as u32 + 0x100, 0x1000] {
                    let describe = || J::obj().set("part", "names_across_4gib").set("layout", layout).set("table_address", format!("2^32 - {}", back)).set("name_index", ni);
                    ctx.leaf(describe, |ctx| {
                        ctx.state_direct();
                        let Some(span) = span.as_ref() else {
                            ctx.class("elf:4gib-range-not-available");
                            return;
                        };
                        ctx.nontrivial();
                        span.fill(0);
                        let base: u64 = (1u64 << 32) - back;
                        let boundary_off = (1usize << 32) - span.base() as usize;
                        // names: "lo" at the table start, and a name starting exactly at table + ni
                        let name = format!("n{}x{}", back, ni);
                        span.place_at(boundary_off - back as usize + ni as usize, name.as_bytes());
                        if ni > 3 {
                            span.place_at(boundary_off - back as usize, b"lo");
                        }
                        let stride = layout as usize;
                        let mut sec = vec![0u8; 2 * stride];
                        for i in 0..2usize {
                            let (nm, t, addr) = if i == 1 { (0u32, 3u32, base) } else { (ni, 1, 0x1000) };
                            let e = if layout == 40 { bi::enc_shdr32(nm, t, 2, addr as u32, 0, 0x40, 0, 0, 4, 0) } else { bi::enc_shdr64(nm, t, 2, addr, 0, 0x40, 0, 0, 4, 0) };
                            sec[i * stride..(i + 1) * stride].copy_from_slice(&e);
                        }
                        let mut img = bi::enc_elf(2, layout, 1, &sec);
                        while img.len() % 8 != 0 {
                            img.push(0xF5);
                        }
                        big.fill(arena::FILL_A);
                        let p = big.place_right(&img);
                        let slice: &[u8] = unsafe { std::slice::from_raw_parts(p, img.len()) };
                        let tag = Generic::ref_from_slice(slice).unwrap().cast::<ElfSectionsTag>();
                        let r = ctx.call("sections + names", || tag.sections().map(|s| s.name().map(|x| (x.as_ptr() as u64, x.to_string())).unwrap_or((0, "<utf8>".into()))).collect::<Vec<_>>());
                        let want0 = (base + ni as u64, name.clone());
                        match r {
                            Out::Val(got) if got.len() == 2 && got[0] == want0 && got[1].0 == base => ctx.class("elf:name-across-4gib"),
                            Out::Val(got) => ctx.violation("c19/names-4gib", || format!("string table at 2^32 - {}, name index {}: names (address, text) {:x?}, expected the first at {:#x} = {:?} and the second at {:#x}", back, ni, got, want0.0, want0.1, base)),
                            Out::Panic => ctx.violation("c19/names-4gib/spurious-panic", || format!("name() panicked with the string table at 2^32 - {} and name index {}", back, ni)),
                        }
                    });
                }
            }
        }
        let _ = skip;
    }
    let mut lens: Vec<usize> = if ctx.quick() { vec![0, 1, 31, 32, 127, 128, 254, 255, 256, 257, 4096, 65535, 65536] } else { (0..=300).collect() };
    if !ctx.quick() {
        lens.extend([511, 512, 513, 1023, 1024, 1025, 4095, 4096, 4097, 32767, 32768, 65534, 65535, 65536, 65537, 70000]);
    }
    ctx.bound("long_names", format!("section names of length {}: a program section whose name has that length, resolved through the string table entry, both layouts; ASCII and a 2-byte UTF-8 sequence straddling every boundary", if ctx.quick() { format!("{:?}", lens) } else { "0..=300, 511..513, 1023..1025, 4095..4097, 32767, 32768, 65534..65537, 70000".into() }));
    for layout in [64u32, 40] {
        for &l in &lens {
            for utf in [false, true] {
                let describe = || J::obj().set("part", "long_names").set("layout", layout).set("name_len", l).set("two_byte_chars", utf);
                ctx.leaf(describe, |ctx| {
                    ctx.state_direct();
                    ctx.nontrivial();
                    // string table: NUL, name, NUL
                    let mut tab = vec![0u8];
                    if utf {
                        // 'é' (C3 A9) repeated, an ASCII letter in front when the length is odd
                        if l % 2 == 1 {
                            tab.push(b'x');
                        }
                        while tab.len() - 1 < l {
                            tab.extend_from_slice(&[0xC3, 0xA9]);
                        }
                    } else {
                        tab.extend((0..l).map(|i| b'a' + (i % 26) as u8));
                    }
                    tab.push(0);
                    tab.extend_from_slice(b"tail\0");
                    st.fill(0xEE);
                    let base = st.place_right(&tab) as u64;
                    let stride = layout as usize;
                    let mut sec = vec![0u8; 2 * stride];
                    let e0 = if layout == 40 { bi::enc_shdr32(1, 1, 2, 0x1000, 0, 0x10, 0, 0, 4, 0) } else { bi::enc_shdr64(1, 1, 2, 0x1000, 0, 0x10, 0, 0, 4, 0) };
                    let e1 = if layout == 40 { bi::enc_shdr32(0, 3, 0, base as u32, 0, tab.len() as u32, 0, 0, 1, 0) } else { bi::enc_shdr64(0, 3, 0, base, 0, tab.len() as u64, 0, 0, 1, 0) };
                    sec[..stride].copy_from_slice(&e0);
                    sec[stride..].copy_from_slice(&e1);
                    let mut img = bi::enc_elf(2, layout, 1, &sec);
                    while img.len() % 8 != 0 {
                        img.push(0xF5);
                    }
                    big.fill(arena::FILL_B);
                    let p = big.place_right(&img);
                    let slice: &[u8] = unsafe { std::slice::from_raw_parts(p, img.len()) };
                    let tag = Generic::ref_from_slice(slice).unwrap().cast::<ElfSectionsTag>();
                    let r = ctx.call("name", || tag.sections().next().map(|s| s.name().map(|x| (x.as_ptr() as u64, x.len(), hash::hash_bytes(x.as_bytes())))));
                    let want = &tab[1..1 + l];
                    match r {
                        Out::Val(Some(Ok((ptr, len, h)))) if ptr == base + 1 && len == l && h == hash::hash_bytes(want) => ctx.class("elf:long-name"),
                        Out::Val(other) => ctx.violation("c19/long-name", || format!("name of {} bytes: name() = {:?} (pointer offset, length, hash); expected length {} at string-table offset 1", l, other.map(|o| o.map(|(p, n, h)| (p.wrapping_sub(base), n, h))), l)),
                        Out::Panic => ctx.violation("c19/spurious-panic/name", || format!("name() panicked on a name of {} bytes", l)),
                    }
                });
            }
        }
    }
}

fn main() {
    main_wrap("C19", run);
}

