//! C03 - tag iteration reproduces the specification's tag walk, zero-copy;
//! iterator-protocol histories (next / clone / fresh on up to three handles).
use mbvlib::spec::*;
use mbvlib::*;
use multiboot2::{BootInformation, BootInformationHeader, TagHeader, TagIter};

// 0x0001_0003: a type whose low half equals the module type
const TYPES: [u32; 5] = [1, 0, 3, 0x1337, 0x0001_0003];

fn sizes(p: usize) -> Vec<u32> {
    let mut v: Vec<u32> = vec![8];
    v.extend((0..=(p as u32 + 17)).filter(|&s| s != 8));
    v.extend([0x7FFF_FFFF, 0xFFFF_FFF9, 0xFFFF_FFFF]);
    v
}

/// Build a payload by walking: choose (type, size) at every offset the
/// reference walk reaches.
fn gen_payload(ch: &mut Chooser, p: usize, size_alpha: &[u32], types: &[u32], max_tags: usize) -> Vec<u8> {
    let mut pl = vec![0u8; p];
    for (i, b) in pl.iter_mut().enumerate() {
        *b = marker(i, 2);
    }
    let mut off = 0usize;
    let mut n = 0;
    while off < p && n < max_tags {
        let typ = *ch.pick_from(types);
        let size = *ch.pick_from(size_alpha);
        wr32(&mut pl, off, typ);
        wr32(&mut pl, off + 4, size);
        n += 1;
        if size < 8 {
            break;
        }
        let next = off as u64 + ((size as u64 + 7) & !7);
        if next > p as u64 {
            break;
        }
        off = next as usize;
    }
    pl
}

#[derive(Clone, Copy, PartialEq, Eq, Debug)]
enum Seam {
    Raw,
    Load,
}

struct Item {
    addr: usize,
    typ: u32,
    size: u32,
    pl_addr: usize,
    pl_len: usize,
    sov: usize,
    pl_hash: u64,
}

fn observe_item(t: &multiboot2::DynSizedStructure<TagHeader>) -> Item {
    let pl = t.payload();
    Item {
        addr: t as *const _ as *const u8 as usize,
        typ: u32::from(t.header().typ),
        size: t.header().size,
        pl_addr: pl.as_ptr() as usize,
        pl_len: pl.len(),
        sov: std::mem::size_of_val(t),
        pl_hash: hash::hash_bytes(pl),
    }
}

/// Compare one yielded item with the k-th item of the reference walk.
fn check_item(ctx: &mut Ctx, it: &Item, want: &WalkItem, payload: &[u8], pbase: usize, seam: Seam) {
    ctx.ob("item.off", (it.addr.wrapping_sub(pbase)) as u64);
    ctx.ob("item.typ", it.typ as u64);
    ctx.ob("item.size", it.size as u64);
    ctx.ob("item.pl_len", it.pl_len as u64);
    ctx.ob("item.pl_hash", it.pl_hash);
    let mut bad = vec![];
    if it.addr != pbase + want.off {
        bad.push("address is not region base + walk offset (not zero-copy / wrong offset)");
    }
    if it.typ != want.typ || it.size as usize != want.size {
        bad.push("stored type/size not reported");
    }
    if it.pl_len != want.size - 8 || it.pl_addr != pbase + want.off + 8 {
        bad.push("payload is not exactly size-8 bytes after the tag header");
    } else if it.pl_hash != hash::hash_bytes(&payload[want.off + 8..want.off + want.size]) {
        bad.push("payload bytes differ");
    }
    if it.sov != round8(want.size) {
        bad.push("size_of_val != size rounded up to 8");
    }
    if !bad.is_empty() {
        ctx.violation(&format!("c03/item/{:?}", seam), || {
            format!("{}: got off {} typ {:#x} size {} payload {} sov {}; reference {:?}", bad.join("; "), it.addr as i64 - pbase as i64, it.typ, it.size, it.pl_len, it.sov, want)
        });
    }
}

/// Full walk with one iterator, then three more next() calls.
fn full_walk<'a>(ctx: &mut Ctx, mut it: TagIter<'a>, payload: &[u8], pbase: usize, items: &[WalkItem], refuse: bool, seam: Seam) {
    let cap = payload.len() / 8 + 2;
    let mut k = 0usize;
    loop {
        if k > cap {
            ctx.violation(&format!("c03/termination/{:?}", seam), || "iterator yields more items than 8-byte slots exist".into());
            return;
        }
        let r = ctx.call("TagIter::next", || it.next().map(observe_item));
        match r {
            Out::Val(Some(item)) => {
                if k < items.len() {
                    check_item(ctx, &item, &items[k], payload, pbase, seam);
                } else {
                    ctx.violation(&format!("c03/extra-item/{:?}", seam), || {
                        format!("item #{} yielded (off {}, size {}) but the reference walk has {} items{}", k, item.addr as i64 - pbase as i64, item.size, items.len(), if refuse { " and must then be refused" } else { "" })
                    });
                    return;
                }
                k += 1;
            }
            Out::Val(None) => {
                ctx.ob("walk.none_at", k as u64);
                if refuse {
                    ctx.violation(&format!("c03/no-refusal/{:?}", seam), || format!("iterator ended normally after {} items; the walk leaves the region or meets a size below 8 and must end in a controlled panic", k));
                } else if k != items.len() {
                    ctx.violation(&format!("c03/short-walk/{:?}", seam), || format!("iterator ended after {} of {} tags", k, items.len()));
                } else {
                    ctx.class("walk:complete");
                }
                break;
            }
            Out::Panic => {
                ctx.ob("walk.panic_at", k as u64);
                if !refuse {
                    ctx.violation(&format!("c03/spurious-panic/{:?}", seam), || format!("next() panicked at item #{} of a well-formed walk", k));
                } else {
                    ctx.class("walk:refused");
                }
                // after a caught panic the handle's bookkeeping methods still answer without panicking (size_hint, Debug
                // of a clone) ...
                if ctx.call("TagIter::size_hint(after panic)", || it.size_hint()).is_panic() {
                    ctx.violation(&format!("c03/size-hint-after-panic/{:?}", seam), || "size_hint() panicked on a handle whose walk was refused".into());
                }
                let _ = ctx.call("TagIter::clone(after panic)", || it.clone().size_hint());
                // ... and the handle must never yield a tag
                for _ in 0..2 {
                    if let Out::Val(Some(_)) = ctx.call("TagIter::next(after panic)", || it.next().map(|_| ())) {
                        ctx.violation(&format!("c03/yield-after-panic/{:?}", seam), || "next() yields a tag after it refused the walk".into());
                    }
                }
                return;
            }
        }
    }
    // stays exhausted
    for _ in 0..3 {
        match ctx.call("TagIter::next(exhausted)", || it.next().map(|_| ())) {
            Out::Val(None) => {}
            _ => ctx.violation(&format!("c03/not-fused/{:?}", seam), || "next() after None did not return None".into()),
        }
    }
}

fn module_walk(ctx: &mut Ctx, bi: &BootInformation, payload: &[u8], pbase: usize, items: &[WalkItem], refuse: bool) {
    let mods: Vec<&WalkItem> = items.iter().filter(|i| i.typ == 3).collect();
    let undersized = mods.iter().any(|m| m.size < 16);
    // protocol: Debug and a clone taken from the fresh iterator must not disturb it; the clone yields the same
    let mut it = bi.module_tags();
    let _ = ctx.call("Debug(ModuleIter)", || format!("{:?}", it).len());
    if !(refuse || undersized) {
        let r = ctx.call("ModuleIter clone/exhaustion", || {
            let mut a = bi.module_tags();
            let first = a.next().map(|m| m as *const _ as *const u8 as usize);
            let b = a.clone();
            let ra: Vec<usize> = a.by_ref().map(|m| m as *const _ as *const u8 as usize).collect();
            let rb: Vec<usize> = b.map(|m| m as *const _ as *const u8 as usize).collect();
            let after = (a.next().is_some(), a.next().is_some());
            let nth1 = bi.module_tags().nth(1).map(|m| m as *const _ as *const u8 as usize);
            let cnt = bi.module_tags().count();
            // internal iteration (fold, for_each, last) and the other position-based adapters (skip, step_by)
            let folded: Vec<usize> = bi.module_tags().fold(vec![], |mut v, m| { v.push(m as *const _ as *const u8 as usize); v });
            let mut each: Vec<usize> = vec![];
            bi.module_tags().for_each(|m| each.push(m as *const _ as *const u8 as usize));
            let last = bi.module_tags().last().map(|m| m as *const _ as *const u8 as usize);
            let skip1: Vec<usize> = bi.module_tags().skip(1).map(|m| m as *const _ as *const u8 as usize).collect();
            let step2: Vec<usize> = bi.module_tags().step_by(2).map(|m| m as *const _ as *const u8 as usize).collect();
            (first, ra, rb, after, nth1, cnt, (folded, each, last, skip1, step2))
        });
        match r {
            Out::Val((first, ra, rb, after, nth1, cnt, (folded, each, last, skip1, step2))) => {
                let want: Vec<usize> = mods.iter().map(|m| pbase + m.off).collect();
                if folded != want || each != want || last != want.last().copied() || skip1 != want.iter().copied().skip(1).collect::<Vec<_>>() || step2 != want.iter().copied().step_by(2).collect::<Vec<_>>() {
                    ctx.violation("c03/modules/adapters", || format!("module iterator adapters: fold {:?}, for_each {:?}, last {:?}, skip(1) {:?}, step_by(2) {:?}; reference module tags at {:?}", folded.iter().map(|a| a.wrapping_sub(pbase)).collect::<Vec<_>>(), each.iter().map(|a| a.wrapping_sub(pbase)).collect::<Vec<_>>(), last.map(|a| a.wrapping_sub(pbase)), skip1.iter().map(|a| a.wrapping_sub(pbase)).collect::<Vec<_>>(), step2.iter().map(|a| a.wrapping_sub(pbase)).collect::<Vec<_>>(), mods.iter().map(|m| m.off).collect::<Vec<_>>()));
                }
                let mut got = vec![];
                got.extend(first);
                got.extend(ra.iter().copied());
                if got != want || (first.is_some() && rb != ra) || after != (false, false) || nth1 != want.get(1).copied() || cnt != want.len() {
                    ctx.violation("c03/modules/protocol", || format!("module iterator protocol: first+rest {:?}, clone-after-first {:?}, next-after-None {:?}, nth(1) {:?}, count {}; reference module tags at {:?}", got.iter().map(|a| a - pbase).collect::<Vec<_>>(), rb.iter().map(|a| a - pbase).collect::<Vec<_>>(), after, nth1.map(|a| a - pbase), cnt, mods.iter().map(|m| m.off).collect::<Vec<_>>()));
                }
            }
            Out::Panic => ctx.violation("c03/modules/spurious-panic", || "module iterator protocol calls panicked on a well-formed walk".into()),
        }
    }
    let mut k = 0;
    loop {
        if k > payload.len() / 8 + 2 {
            ctx.violation("c03/termination/modules", || "module iterator does not terminate".into());
            return;
        }
        let r = ctx.call("ModuleIter::next", || it.next().map(|m| (m as *const _ as *const u8 as usize, std::mem::size_of_val(m))));
        match r {
            Out::Val(Some((addr, sov))) => {
                ctx.ob("mod.off", (addr.wrapping_sub(pbase)) as u64);
                if k >= mods.len() || addr != pbase + mods[k].off || sov != round8(mods[k].size) {
                    ctx.violation("c03/modules/wrong-item", || format!("module iterator item #{} at offset {} (sov {}); reference module tags at {:?}", k, addr as i64 - pbase as i64, sov, mods.iter().map(|m| m.off).collect::<Vec<_>>()));
                    return;
                }
                k += 1;
            }
            Out::Val(None) => {
                ctx.ob("mod.none", k as u64);
                if refuse {
                    ctx.violation("c03/modules/no-refusal", || "module iterator ended normally on a walk that must be refused".into());
                } else if k != mods.len() {
                    ctx.violation("c03/modules/missed", || format!("module iterator yielded {} of {} module tags", k, mods.len()));
                } else {
                    ctx.class("modules:complete");
                }
                return;
            }
            Out::Panic => {
                ctx.ob("mod.panic", k as u64);
                if !(refuse || undersized) {
                    ctx.violation("c03/modules/spurious-panic", || format!("module iterator panicked at item #{} of a well-formed walk", k));
                }
                return;
            }
        }
    }
}

fn exec_region(ctx: &mut Ctx, arena: &Arena, pl: &[u8], with_modules: bool) {
    let p = pl.len();
    let (items, refuse) = walk(pl);
    let mut sh = H64::new();
    sh.bytes(pl);
    ctx.state(sh.get());
    if !items.is_empty() || refuse {
        ctx.nontrivial();
    }
    // seam 1: TagIter::new on the raw payload, flush against the guard page
    ctx.under_fills("c03/o5/raw", |ctx, fill| {
        arena.fill(fill);
        let base = arena.place_right(pl);
        let slice: &[u8] = unsafe { std::slice::from_raw_parts(base, p) };
        match ctx.call("TagIter::new", || TagIter::new(slice)) {
            Out::Val(it) => {
                full_walk(ctx, it.clone(), pl, base as usize, &items, refuse, Seam::Raw);
                // a fresh iterator reproduces the same walk
                full_walk(ctx, it.clone(), pl, base as usize, &items, refuse, Seam::Raw);
                // on a walk that must be refused, the consuming adapters must not return normally either
                if refuse {
                    let cap = items.len() + 1;
                    let r = ctx.call("TagIter last (refused walk)", || it.clone().last().map(|_| ()));
                    if !r.is_panic() {
                        ctx.violation("c03/adapters/no-refusal/last", || format!("last() returned normally on a walk that leaves the region or meets a size below 8 after {} tags", items.len()));
                    }
                    let r = ctx.call("TagIter count (refused walk)", || it.clone().count());
                    if !r.is_panic() {
                        ctx.violation("c03/adapters/no-refusal/count", || "count() returned normally on a walk that must be refused".into());
                    }
                    for k in [cap, cap + 1, cap + 2, cap + 9] {
                        let r = ctx.call("TagIter nth (refused walk)", || it.clone().nth(k).map(|_| ()));
                        if !r.is_panic() {
                            ctx.violation("c03/adapters/no-refusal/nth", || format!("nth({}) returned normally on a walk that must be refused after {} tags", k, cap - 1));
                        }
                        let r = ctx.call("TagIter skip (refused walk)", || it.clone().skip(k).next().map(|_| ()));
                        if !r.is_panic() {
                            ctx.violation("c03/adapters/no-refusal/skip", || format!("skip({}).next() returned normally on a walk that must be refused after {} tags", k, cap - 1));
                        }
                    }
                }
                // adapters the iterator type may override: count, last, size_hint, skip, step_by, fold
                if !refuse {
                    let want: Vec<usize> = items.iter().map(|i| i.off).collect();
                    let b0 = base as usize;
                    let mut ks: Vec<usize> = (0..=want.len().min(6) + 1).collect();
                    ks.extend([want.len().saturating_sub(1), want.len(), want.len() + 1]);
                    let r = ctx.call("TagIter adapters", || {
                        let off = |t: &multiboot2_common::DynSizedStructure<multiboot2::TagHeader>| t as *const _ as *const u8 as usize - b0;
                        let cnt = it.clone().count();
                        let last = it.clone().last().map(off);
                        let (lo, hi) = it.clone().size_hint();
                        let skips: Vec<Option<usize>> = ks.iter().map(|&k| it.clone().skip(k).next().map(off)).collect();
                        let step2: Vec<usize> = it.clone().step_by(2).map(off).collect();
                        let folded: Vec<usize> = it.clone().fold(vec![], |mut v, t| { v.push(off(t)); v });
                        let mut part = it.clone();
                        let first = part.next().map(off);
                        let (lo1, hi1) = part.size_hint();
                        let last1 = part.clone().last().map(off);
                        let fold1: Vec<usize> = part.clone().fold(vec![], |mut v, t| { v.push(off(t)); v });
                        let rest = part.count();
                        // a drained handle stays drained for every adapter
                        let mut dr = it.clone();
                        while dr.next().is_some() {}
                        let drained = (dr.clone().last().is_none(), dr.clone().count(), dr.clone().nth(0).is_none(), dr.fold(0usize, |a, _| a + 1));
                        (cnt, last, lo, hi, skips, step2, folded, first, lo1, hi1, rest, last1, fold1, drained)
                    });
                    match r {
                        Out::Panic => ctx.violation("c03/adapters/spurious-panic", || "count/last/size_hint/skip/step_by/fold panicked on a well-formed walk".into()),
                        Out::Val((cnt, last, lo, hi, skips, step2, folded, first, lo1, hi1, rest, last1, fold1, drained)) => {
                            ctx.ob("ad.cnt", cnt as u64);
                            let n = want.len();
                            let mut bad = vec![];
                            if cnt != n { bad.push(format!("count() = {}", cnt)); }
                            if last != want.last().copied() { bad.push(format!("last() = {:?}", last)); }
                            if lo > n || hi.is_some_and(|h| h < n) { bad.push(format!("size_hint() = ({}, {:?})", lo, hi)); }
                            let ws: Vec<Option<usize>> = ks.iter().map(|&k| want.get(k).copied()).collect();
                            if skips != ws { bad.push(format!("skip(k).next() = {:?}", skips)); }
                            if step2 != want.iter().copied().step_by(2).collect::<Vec<_>>() { bad.push(format!("step_by(2) = {:?}", step2)); }
                            if folded != want { bad.push(format!("fold = {:?}", folded)); }
                            if first != want.first().copied() || rest != n.saturating_sub(1) { bad.push(format!("next() = {:?} then count() = {}", first, rest)); }
                            if (n >= 2 && last1 != want.last().copied()) || (n < 2 && last1.is_some()) || fold1 != want.iter().copied().skip(1).collect::<Vec<_>>() { bad.push(format!("after one next(): last() = {:?}, fold = {:?}", last1, fold1)); }
                            if drained != (true, 0, true, 0) { bad.push(format!("drained handle: (last() is None, count(), nth(0) is None, fold count) = {:?}", drained)); }
                            if lo1 > n.saturating_sub(1) || hi1.is_some_and(|h| h < n.saturating_sub(1)) { bad.push(format!("size_hint() after one item = ({}, {:?})", lo1, hi1)); }
                            if !bad.is_empty() {
                                ctx.violation("c03/adapters", || format!("reference walk has {} tags at offsets {:?}; {}", n, want, bad.join("; ")));
                            }
                        }
                    }
                }
            }
            Out::Panic => ctx.violation("c03/new-panic", || "TagIter::new panicked on an 8-aligned payload".into()),
        }
    });
    // seam 1b: the same payload with readable memory behind it that continues the chain ([(1,8)][end tag], and an
    // end-tag image in front): what lies outside the slice is not part of the walk
    if p + 32 <= arena.len() {
        arena.fill(arena::FILL_B);
        let off = arena.len() - 24 - p;
        if off >= 8 {
            arena.place_at(off - 8, &[0, 0, 0, 0, 8, 0, 0, 0]);
        }
        let base = arena.place_at(off, pl);
        arena.place_at(off + p, &[1, 0, 0, 0, 8, 0, 0, 0, 0, 0, 0, 0, 8, 0, 0, 0]);
        let slice: &[u8] = unsafe { std::slice::from_raw_parts(base, p) };
        match ctx.call("TagIter::new (interior)", || TagIter::new(slice)) {
            Out::Val(it) => full_walk(ctx, it, pl, base as usize, &items, refuse, Seam::Raw),
            Out::Panic => ctx.violation("c03/new-panic", || "TagIter::new panicked on an 8-aligned payload".into()),
        }
    }
    // seam 2: through BootInformation::load when the payload ends in an end tag
    let ends_in_end_tag = p >= 8 && rd32(pl, p - 8) == 0 && rd32(pl, p - 4) == 8;
    if ends_in_end_tag {
        let mut region = vec![0u8; 8 + p];
        wr32(&mut region, 0, (8 + p) as u32);
        region[8..].copy_from_slice(pl);
        ctx.under_fills("c03/o5/load", |ctx, fill| {
            arena.fill(fill);
            let base = arena.place_right(&region);
            let r = ctx.call("BootInformation::load", || unsafe { BootInformation::load(base as *const BootInformationHeader) });
            match r {
                Out::Val(Ok(bi)) => {
                    ctx.class("load:ok");
                    let pbase = base as usize + 8;
                    full_walk(ctx, bi.tags(), pl, pbase, &items, refuse, Seam::Load);
                    if with_modules {
                        module_walk(ctx, &bi, pl, pbase, &items, refuse);
                    }
                }
                Out::Val(Err(e)) => ctx.violation("c03/load-refused", || format!("load refused a region whose last 8 bytes are an end tag: {:?}", e)),
                Out::Panic => ctx.violation("c03/load-panic", || "load panicked".into()),
            }
        });
    }
}

// ---------------------------------------------------------------- histories

#[derive(Clone, Copy, Debug, PartialEq, Eq)]
enum Op {
    Next(u8),
    Clone(u8),
    Fresh,
    /// Iterator::nth(k): an adapter the iterator may override
    Nth(u8, u8),
}

fn gen_program(ch: &mut Chooser, depth: usize) -> Vec<Op> {
    let mut live = 1u8; // handle 0 exists from the start
    let mut prog = Vec::new();
    for _ in 0..depth {
        // menu: stop | next(h) for live h | clone(h) | fresh
        let mut menu: Vec<Option<Op>> = vec![None];
        for h in 0..live {
            menu.push(Some(Op::Next(h)));
            menu.push(Some(Op::Nth(h, 1)));
        }
        if live < 3 {
            for h in 0..live {
                menu.push(Some(Op::Clone(h)));
            }
            menu.push(Some(Op::Fresh));
        }
        match *ch.pick_from(&menu) {
            None => break,
            Some(op) => {
                if matches!(op, Op::Clone(_) | Op::Fresh) {
                    live += 1;
                }
                prog.push(op);
            }
        }
    }
    prog
}

fn exec_history(ctx: &mut Ctx, arena: &Arena, pl: &[u8], prog: &[Op]) {
    let (items, refuse) = walk(pl);
    arena.fill(arena::FILL_A);
    let base = arena.place_right(pl);
    let slice: &[u8] = unsafe { std::slice::from_raw_parts(base, pl.len()) };
    let pbase = base as usize;
    // model: cursor per handle, None = dead (panicked)
    let mut model: Vec<Option<usize>> = vec![Some(0)];
    let mut real: Vec<Option<TagIter>> = vec![Some(TagIter::new(slice))];
    let mut sh = H64::new();
    sh.bytes(pl);
    for (step, op) in prog.iter().enumerate() {
        match *op {
            Op::Fresh => {
                model.push(Some(0));
                real.push(Some(TagIter::new(slice)));
            }
            Op::Clone(h) => {
                let h = h as usize;
                model.push(model[h]);
                let c = real[h].as_ref().map(|it| it.clone());
                real.push(c);
                ctx.transitions += 1;
            }
            Op::Nth(h, kk) => {
                let h = h as usize;
                let kk = kk as usize;
                let Some(cur) = model[h] else { continue };
                let it = real[h].as_mut().unwrap();
                let r = ctx.call("TagIter::nth", || it.nth(kk).map(observe_item));
                match r {
                    Out::Val(Some(item)) => {
                        if cur + kk < items.len() {
                            check_item(ctx, &item, &items[cur + kk], pl, pbase, Seam::Raw);
                            model[h] = Some(cur + kk + 1);
                        } else {
                            ctx.violation("c03/history/nth-extra-item", || format!("step {} {:?}: nth({}) yields a tag at offset {} with the reference cursor at {} of {}", step, op, kk, item.addr as i64 - pbase as i64, cur, items.len()));
                            return;
                        }
                    }
                    Out::Val(None) => {
                        if cur + kk < items.len() {
                            ctx.violation("c03/history/nth-early-none", || format!("step {} {:?}: nth({}) = None at reference cursor {} of {}", step, op, kk, cur, items.len()));
                            return;
                        } else if refuse {
                            ctx.violation("c03/history/no-refusal", || format!("step {} {:?}: None where the walk must be refused", step, op));
                            return;
                        }
                        model[h] = Some(items.len());
                    }
                    Out::Panic => {
                        if !refuse {
                            ctx.violation("c03/history/spurious-panic", || format!("step {} {:?}: panic on a well-formed walk", step, op));
                            return;
                        }
                        model[h] = None;
                        real[h] = None;
                    }
                }
            }
            Op::Next(h) => {
                let h = h as usize;
                let Some(cur) = model[h] else { continue };
                let it = real[h].as_mut().unwrap();
                let r = ctx.call("TagIter::next", || it.next().map(observe_item));
                match r {
                    Out::Val(Some(item)) => {
                        if cur < items.len() {
                            check_item(ctx, &item, &items[cur], pl, pbase, Seam::Raw);
                            model[h] = Some(cur + 1);
                        } else {
                            ctx.violation("c03/history/extra-item", || format!("step {} {:?}: handle yields a tag at offset {} but its reference cursor is at the end ({} items)", step, op, item.addr as i64 - pbase as i64, items.len()));
                            return;
                        }
                    }
                    Out::Val(None) => {
                        ctx.ob("h.none", step as u64);
                        if cur < items.len() {
                            ctx.violation("c03/history/early-none", || format!("step {} {:?}: None at reference cursor {} of {}", step, op, cur, items.len()));
                            return;
                        } else if refuse {
                            ctx.violation("c03/history/no-refusal", || format!("step {} {:?}: None where the walk must be refused", step, op));
                            return;
                        }
                    }
                    Out::Panic => {
                        ctx.ob("h.panic", step as u64);
                        if !refuse {
                            ctx.violation("c03/history/spurious-panic", || format!("step {} {:?}: panic on a well-formed walk", step, op));
                            return;
                        }
                        model[h] = None;
                        real[h] = None;
                    }
                }
            }
        }
        // state = (region, sorted model cursors)
        let mut cs: Vec<i64> = model.iter().map(|c| c.map(|x| x as i64).unwrap_or(-1)).collect();
        cs.sort_unstable();
        let mut h2 = sh;
        for c in cs {
            h2.u64(c as u64);
        }
        ctx.state(h2.get());
    }
    ctx.nontrivial();
    ctx.class("history:done");
}

fn run(ctx: &mut Ctx) {
    let quick = ctx.quick();
    let arena = Arena::new(2);
    let max_p = if quick { 32 } else if ctx.dev_profile() { 40 } else { 48 };
    ctx.bound("walk", format!("payload lengths 0,8,..,{}; at every offset the reference walk reaches: type in {{1,0,3,0x1337,0x10003}} x size in 0..=P+17 + {{0x7FFFFFFF,0xFFFFFFF9,0xFFFFFFFF}} (every tiling and every way of failing to tile); marker payload bytes; TagIter::new on the raw payload and, when the last 8 bytes are an end tag, BootInformation::load + tags() + module_tags(); region flush against a guard page, fills A/B, and once more 24 bytes in front of it with a well-formed continuation of the chain behind the slice and an end-tag image in front", max_p));
    let mut p = 0;
    while p <= max_p {
        let alpha = sizes(p);
        let max_tags = p / 8 + 1;
        enumerate(0, |ch| {
            let pl = gen_payload(ch, p, &alpha, &TYPES, max_tags);
            let choices = ch.choices();
            ctx.leaf(
                || J::obj().set("body", "walk").set("payload_len", p).set("payload", J::hex(&pl)).set("choice_vector", J::Arr(choices.iter().map(|&c| J::from(c)).collect())),
                |ctx| exec_region(ctx, &arena, &pl, true),
            );
        });
        p += 8;
    }
    // many modules in one region: runs of modules, modules as the final tags, modules after an end-type tag
    ctx.bound("many_modules", "regions of 3..=40 tags built from every pattern of period <= 3 over {module(16), module(21), other(12), end-type(8)} plus the final end tag");
    let big = Arena::new(4);
    for n in [3usize, 4, 7, 16, 17, 33, 40] {
        for period in 1..=3usize {
            for code in 0..4usize.pow(period as u32) {
                let mut pl: Vec<u8> = vec![];
                for i in 0..n {
                    let sym = (code / 4usize.pow((i % period) as u32)) % 4;
                    let (typ, size) = [(3u32, 16usize), (3, 21), (if i % 2 == 0 { 1 } else { 0x0001_0003 }, 12), (0, 8)][sym];
                    let mut t = vec![0u8; round8(size)];
                    for (j, b) in t.iter_mut().enumerate() {
                        *b = marker(i * 24 + j, 2);
                    }
                    wr32(&mut t, 0, typ);
                    wr32(&mut t, 4, size as u32);
                    pl.extend(t);
                }
                pl.extend_from_slice(&[0, 0, 0, 0, 8, 0, 0, 0]);
                ctx.leaf(
                    || J::obj().set("body", "many-modules").set("tags", n).set("pattern_code", code).set("period", period).set("payload_len", pl.len()),
                    |ctx| exec_region(ctx, &big, &pl, true),
                );
            }
        }
    }
    // contents that look like structure: tag payloads made of end-tag and tag-header images
    ctx.bound("lookalike_payloads", "one or two tags whose payload consists of 1..=3 eight-byte images over {end tag (0,8), (1,8), (3,16), (0,0)}, wrapped in type {1, 3, 0x1337}, alone / after a plain tag / before a plain tag, plus the final end tag: the walk must not take payload bytes for structure");
    for k in 1..=3usize {
        for code in 0..4usize.pow(k as u32) {
            for typ in [1u32, 3, 0x1337] {
                for shape in 0..3 {
                    let mut t = vec![0u8; 8 + 8 * k];
                    wr32(&mut t, 0, typ);
                    wr32(&mut t, 4, (8 + 8 * k) as u32);
                    for i in 0..k {
                        let (a, b) = [(0u32, 8u32), (1, 8), (3, 16), (0, 0)][(code / 4usize.pow(i as u32)) % 4];
                        wr32(&mut t, 8 + 8 * i, a);
                        wr32(&mut t, 12 + 8 * i, b);
                    }
                    let plain = {
                        let mut q = vec![0u8; 16];
                        wr32(&mut q, 0, 2);
                        wr32(&mut q, 4, 13);
                        q[8..13].copy_from_slice(b"boot\0");
                        q
                    };
                    let mut pl: Vec<u8> = vec![];
                    match shape {
                        0 => pl.extend(&t),
                        1 => {
                            pl.extend(&plain);
                            pl.extend(&t);
                        }
                        _ => {
                            pl.extend(&t);
                            pl.extend(&plain);
                        }
                    }
                    // the same region without the real end tag: its last 8 bytes are then payload that may look like one
                    {
                        let pl2 = pl.clone();
                        ctx.leaf(
                            || J::obj().set("body", "lookalike-unterminated").set("images", k).set("code", code).set("wrapping_type", typ).set("shape", shape).set("payload", J::hex(&pl2)),
                            |ctx| exec_region(ctx, &big, &pl2, true),
                        );
                    }
                    pl.extend_from_slice(&[0, 0, 0, 0, 8, 0, 0, 0]);
                    ctx.leaf(
                        || J::obj().set("body", "lookalike").set("images", k).set("code", code).set("wrapping_type", typ).set("shape", shape).set("payload", J::hex(&pl)),
                        |ctx| exec_region(ctx, &big, &pl, true),
                    );
                }
            }
        }
    }
    // the walk follows the size word whatever the type word says: every specified type number with every size
    ctx.bound("typed_sizes", "regions [tag of type T, size S][string tag of 9 bytes][end tag] for T in 0..=22, 0x1337 and S in 8..=48: the walk steps by S rounded up to 8 for every type (the payload of every item is S - 8 bytes)");
    for typ in (0u32..=22).chain([0x1337]) {
        for size in 8usize..=48 {
            let mut pl: Vec<u8> = vec![0u8; round8(size)];
            for (j, b) in pl.iter_mut().enumerate() {
                *b = marker(j, 6);
            }
            wr32(&mut pl, 0, typ);
            wr32(&mut pl, 4, size as u32);
            pl.extend_from_slice(&[1, 0, 0, 0, 9, 0, 0, 0, 0x61, 0, 0, 0, 0, 0, 0, 0]);
            pl.extend_from_slice(&[0, 0, 0, 0, 8, 0, 0, 0]);
            ctx.leaf(
                || J::obj().set("body", "typed-sizes").set("type", typ).set("size", size).set("payload", J::hex(&pl)),
                // (module tags below 17 bytes are a documented refusal of the module iterator: not walked here)
                |ctx| exec_region(ctx, &big, &pl, typ != 3),
            );
        }
    }
    // modules among tags of every other kind: what other tags say (memory sizes, memory maps, load addresses) has no
    // bearing on which module tags the iterator yields
    ctx.bound("modules_among_kinds", "regions [K][module][K][module][K][end] and [module][K][module][end] for every specified kind K (realistic sample; basic memory info also with 0 / 1 MiB / 64 MiB upper memory, memory maps covering 1 MiB / 128 MiB) x module ranges {1..2 MiB, 16..17 MiB, 3.9 GiB..4 GiB-1, 0..0, end below start}: tags() and module_tags() against the reference walk");
    {
        let mut others: Vec<(String, Vec<u8>)> = vec![];
        for k in 1..=21u32 {
            if k != bi::MODULE {
                others.push((bi::kind_name(k).to_string(), bi::sample(k, 1, 2)));
            }
        }
        for upper in [0u32, 1024, 65536] {
            others.push((format!("MemInfo upper {} KiB", upper), bi::enc_meminfo(640, upper)));
        }
        for top in [0x10_0000u64, 0x800_0000] {
            others.push((format!("Mmap up to {:#x}", top), bi::enc_mmap(24, 0, &[(0, 0x9_FC00, 1, 0), (0x10_0000, top - 0x10_0000, 1, 0)])));
        }
        let ranges: [(u32, u32); 5] = [(0x10_0000, 0x20_0000), (0x100_0000, 0x110_0000), (0xF800_0000, 0xFFFF_FFFF), (0, 0), (0x20_0000, 0x10_0000)];
        for (name, k) in &others {
            for r in 0..5usize {
                for shape in 0..2 {
                    let m1 = bi::enc_module(ranges[r].0, ranges[r].1, b"first\0");
                    let m2 = bi::enc_module(ranges[(r + 1) % 5].0, ranges[(r + 1) % 5].1, b"second module\0");
                    let seq: Vec<&Vec<u8>> = if shape == 0 { vec![k, &m1, k, &m2, k] } else { vec![&m1, k, &m2] };
                    let mut pl: Vec<u8> = vec![];
                    for t in seq {
                        pl.extend_from_slice(t);
                        while pl.len() % 8 != 0 {
                            pl.push(0);
                        }
                    }
                    pl.extend_from_slice(&[0, 0, 0, 0, 8, 0, 0, 0]);
                    ctx.leaf(
                        || J::obj().set("body", "modules-among-kinds").set("other_kind", name.as_str()).set("module_range", r).set("shape", shape).set("payload", J::hex(&pl)),
                        |ctx| exec_region(ctx, &big, &pl, true),
                    );
                }
            }
        }
    }
    // giant regions: offsets beyond 2^31 (a sparse 4 GiB arena; only the pages holding tag headers are touched)
    ctx.bound("giant_regions", "regions of 2 GiB - 8, 2 GiB, 2 GiB + 8, 2 GiB + 16, 3 GiB and 4 GiB - 8 bytes made of [16-byte tag][one giant tag][module tag][end tag] (physically present, sparsely backed): tags() and module_tags() yield the four / the one tag at their offsets");
    {
        let sparse = Arena::new_sparse((1usize << 32) / arena::PAGE + 1);
        for total in [(2usize << 30) - 8, 2 << 30, (2 << 30) + 8, (2 << 30) + 16, 3 << 30, (4usize << 30) - 8] {
            let describe = || J::obj().set("body", "giant-region").set("total_size", total);
            ctx.leaf(describe, |ctx| {
                ctx.state_direct();
                ctx.nontrivial();
                let p = unsafe { sparse.end().sub(total) };
                let w = |off: usize, words: &[u32]| {
                    let s: &mut [u8] = unsafe { std::slice::from_raw_parts_mut(p.add(off), 4 * words.len()) };
                    for (i, v) in words.iter().enumerate() {
                        wr32(s, 4 * i, *v);
                    }
                };
                let giant = total - 8 - 16 - 24 - 8;
                w(0, &[total as u32, 0]);
                w(8, &[1, 13, 0x6162_6364, 0x65]);
                w(24, &[0x1337, giant as u32]);
                w(24 + giant, &[3, 20, 0x10_0000, 0x20_0000, 0x6D6F_64, 0]);
                w(total - 8, &[0, 8]);
                let want = vec![(8usize, 1u32, 13u32), (24, 0x1337, giant as u32), (24 + giant, 3, 20), (total - 8, 0, 8)];
                let r = ctx.call("load+tags", || unsafe { BootInformation::load(p as *const BootInformationHeader) }.map(|b| {
                    let t: Vec<(usize, u32, u32)> = b.tags().take(8).map(|t| (t as *const _ as *const u8 as usize - p as usize, u32::from(t.header().typ), t.header().size)).collect();
                    let m: Vec<usize> = b.module_tags().take(8).map(|m| m as *const _ as *const u8 as usize - p as usize).collect();
                    (t, m, b.total_size(), b.end_address() - b.start_address())
                }));
                match r {
                    Out::Val(Ok((t, m, ts, span))) => {
                        ctx.ob("giant.tags", t.len() as u64);
                        if t != want || m != vec![24 + giant] || ts != total || span != total {
                            ctx.violation("c03/giant/walk", || format!("region of {} bytes: tags() yields (offset, type, size) {:?}, module_tags() {:?}, total_size {}, end - start {}; expected {:?} and the module at {}", total, t, m, ts, span, want, 24 + giant));
                        } else {
                            ctx.class("giant:walked");
                        }
                    }
                    Out::Val(Err(e)) => ctx.violation("c03/load-refused", || format!("load refused a well-formed region of {} bytes: {:?}", total, e)),
                    Out::Panic => ctx.violation("c03/giant/panic", || format!("load / tags() / module_tags() panicked on a well-formed region of {} bytes", total)),
                }
            });
        }
    }
    // long regions: counters of 13, 16 and 17 bits
    let counts: Vec<usize> = if quick { vec![8191, 8192, 65535, 65536, 65541] } else { vec![4095, 4096, 8191, 8192, 8193, 32768, 65535, 65536, 65537, 65541, 131072, 131077] };
    ctx.bound("long_regions", format!("regions of N minimal (8-byte) custom tags + end tag for N in {:?}; regions of 64 KiB, 512 KiB, 1 MiB, 1 MiB + 24 / + 32, 3 MiB and 16 MiB made of one large tag, one 16-byte tag and the end tag; same seams and oracle", counts));
    let huge = Arena::new(4200);
    for &n in &counts {
        let mut pl = vec![0u8; 8 * n + 8];
        for i in 0..n {
            wr32(&mut pl, 8 * i, 0x1337);
            wr32(&mut pl, 8 * i + 4, 8);
        }
        wr32(&mut pl, 8 * n + 4, 8);
        ctx.leaf(|| J::obj().set("body", "long-region/minimal-tags").set("tags", n).set("payload_len", pl.len()), |ctx| exec_region(ctx, &huge, &pl, true));
    }
    for total in [65536usize, 512 << 10, 1 << 20, (1 << 20) + 24, (1 << 20) + 32, 3 << 20, 16 << 20] {
        for modtype in [0x1337u32, 3] {
            let bigsize = total - 24;
            let mut pl = vec![0u8; total];
            for (i, b) in pl.iter_mut().enumerate() {
                *b = marker(i, 5);
            }
            wr32(&mut pl, 0, modtype);
            wr32(&mut pl, 4, bigsize as u32);
            wr32(&mut pl, bigsize, 3);
            wr32(&mut pl, bigsize + 4, 16);
            wr32(&mut pl, total - 8, 0);
            wr32(&mut pl, total - 4, 8);
            ctx.leaf(|| J::obj().set("body", "long-region/large-tag").set("payload_len", total).set("first_tag_type", modtype), |ctx| exec_region(ctx, &huge, &pl, true));
        }
    }
    // self-referential contents: module tags whose address range covers, touches or equals the memory the boot
    // information itself occupies (a region placed below 4 GiB, so that 32-bit module addresses can reach it)
    ctx.bound("self_referential_modules", "regions [module][other][module][end] placed below 4 GiB whose module ranges are taken from {the region itself, the region widened by a page, 0..0xFFFFFFFF, the region's start..start, the page behind the region, 0x1000..0x2000}: the module iterator yields every module tag of the walk, whatever it points at");
    {
        // a fixed address (1 GiB), so that the images are the same in every process (cross-configuration runs
        // compare transcripts that include payload hashes); if that range is taken, any address below 4 GiB - but
        // then not in a cross-configuration run
        let fixed = Arena::new_ending_at(2, 0x4000_0000);
        let skip = fixed.is_none() && ctx.uniform();
        let low = fixed.unwrap_or_else(|| Arena::new_low(2));
        let region_len = 8 + 24 + 16 + 24 + 8;
        let addr = low.end() as usize - region_len;
        let a32 = addr as u32;
        let ranges: [(u32, u32); 6] = [(a32, a32 + region_len as u32), (a32.wrapping_sub(0x1000), a32 + 0x1000), (0, 0xFFFF_FFFF), (a32, a32), (a32 + region_len as u32, a32 + region_len as u32 + 0x1000), (0x1000, 0x2000)];
        for r1 in 0..6usize {
            for r2 in 0..6usize {
                if skip {
                    continue;
                }
                let mut pl: Vec<u8> = vec![];
                pl.extend(bi::enc_module(ranges[r1].0, ranges[r1].1, b"first\0"));
                while pl.len() % 8 != 0 {
                    pl.push(0);
                }
                pl.extend_from_slice(&[1, 0, 0, 0, 12, 0, 0, 0, b'a', b'b', b'c', 0, 0, 0, 0, 0]);
                pl.extend(bi::enc_module(ranges[r2].0, ranges[r2].1, b"second\0"));
                while pl.len() % 8 != 0 {
                    pl.push(0);
                }
                pl.extend_from_slice(&[0, 0, 0, 0, 8, 0, 0, 0]);
                assert_eq!(pl.len() + 8, region_len);
                ctx.leaf(
                    || J::obj().set("body", "self-referential-modules").set("first_range", r1).set("second_range", r2).set("note", "ranges are derived from the address the region is placed at").set("payload_len", pl.len()),
                    |ctx| exec_region(ctx, &low, &pl, true),
                );
            }
        }
    }
    // histories
    let depth = if quick { 4 } else if ctx.dev_profile() { 5 } else { 6 };
    let hp = if quick { 24 } else { 32 };
    ctx.bound("histories", format!("all call sequences up to depth {} over {{next(h), nth(1) on h, clone(h), fresh()}} on up to 3 live handles (no pruning), on every payload of length 0,8,..,{} built from sizes {{8,13,16,24,0,7,P+1}} and types {{1,3}}; after a panic the handle is dropped", depth, hp));
    let mut p = 0;
    while p <= hp {
        let alpha: Vec<u32> = vec![8, 13, 16, 24, 0, 7, p as u32 + 1];
        enumerate(0, |ch| {
            let pl = gen_payload(ch, p, &alpha, &[1, 3], p / 8 + 1);
            let prog = gen_program(ch, depth);
            let choices = ch.choices();
            ctx.leaf(
                || J::obj().set("body", "history").set("payload", J::hex(&pl)).set("program", format!("{:?}", prog)).set("choice_vector", J::Arr(choices.iter().map(|&c| J::from(c)).collect())),
                |ctx| exec_history(ctx, &arena, &pl, &prog),
            );
        });
        p += 8;
    }
}

fn main() {
    main_wrap("C03", run);
}
