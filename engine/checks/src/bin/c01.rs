//! C01 - boot-information parsing never reads outside the loaded structure,
//! never crashes, always terminates; every reference lies inside its tag.
use mbvlib::battery::{self, Bat, BatOpts, Rec, Val};
use mbvlib::spec::bi;
use mbvlib::spec::*;
use mbvlib::*;
use multiboot2::{BootInformation, BootInformationHeader, DynSizedStructure, TagHeader};

type Generic = DynSizedStructure<TagHeader>;

const STRTAB: &[u8] = b"\0.text\0.rodata\0.data\0.bss\0.shstrtab\0\0";
const ELF_TYPES: [u32; 8] = [1, 0, 3, 11, 12, 0x6000_0000, 0x7FFF_FFFF, 0xFFFF_FFFF];

#[derive(Clone)]
struct Field {
    name: &'static str,
    off: usize,
    width: usize,
    alpha: Vec<u32>,
}
#[derive(Clone)]
struct Base {
    kind: u32,
    variant: usize,
    img: Vec<u8>,
    fields: Vec<Field>,
}

fn range_edge(lo: u32, hi: u32) -> Vec<u32> {
    let mut v: Vec<u32> = (lo..=hi).collect();
    v.extend(EDGE32.iter().copied().filter(|e| *e < lo || *e > hi));
    v
}

/// Stride alphabet: the dense range and the edges, plus the values whose product with 2 or 4 entries wraps around
/// 2^32 to the product of a legal stride (24, 40, 48, 64 + k * 2^30).
fn strides() -> Vec<u32> {
    let mut v = range_edge(0, 129);
    for s in [24u32, 40, 48, 64] {
        for k in 1..4u32 {
            v.push(s + (k << 30));
        }
    }
    v
}

fn elf_img(strtab_base: u64) -> Vec<u8> {
    let mut s = Vec::new();
    let names = [1u32, 7, 15];
    for i in 0..3u64 {
        s.extend(bi::enc_shdr64(names[i as usize], [1, 8, 3][i as usize], 2 + i, strtab_base, 0x1000 * i, 0x40 + i, 0, 0, 8, 0));
    }
    bi::enc_elf(3, 64, 2, &s)
}

fn bases(strtab_base: u64) -> Vec<Base> {
    let mut out = Vec::new();
    let mut push = |kind: u32, variant: usize, img: Vec<u8>, extra: Vec<Field>| {
        let mut fields = vec![Field { name: "size", off: 4, width: 4, alpha: range_edge(0, img.len() as u32 + 17) }];
        fields.extend(extra);
        out.push(Base { kind, variant, img, fields });
    };
    for kind in 0..=21u32 {
        match kind {
            bi::CMDLINE | bi::BOOTLOADER => {
                push(kind, 0, bi::enc_string(kind, b"abc\0"), vec![]);
                push(kind, 1, bi::enc_string(kind, b"abcd"), vec![]);
                push(kind, 2, bi::enc_string(kind, b""), vec![]);
            }
            bi::MODULE => {
                push(kind, 0, bi::enc_module(0x1000, 0x2000, b"mod a\0"), vec![]);
                push(kind, 1, bi::enc_module(0x2000, 0x1000, b"mod"), vec![]);
            }
            bi::MMAP => {
                let f = vec![Field { name: "entry_size", off: 8, width: 4, alpha: strides() }, Field { name: "entry_version", off: 12, width: 4, alpha: vec![1, 0xFFFF_FFFF] }];
                push(kind, 0, bi::sample(kind, 1, 0), f.clone());
                let mut two = bi::sample(kind, 1, 2);
                wr64(&mut two, 16 + 24, u64::MAX - 5); // base + length overflows: a controlled panic is allowed
                push(kind, 1, two, f);
            }
            bi::VBE => push(kind, 0, bi::sample(kind, 1, 0), vec![Field { name: "memory_model", off: 16 + 512 + 27, width: 1, alpha: (0..=255).collect() }]),
            bi::FRAMEBUFFER => {
                let f = |cap: u32| vec![Field { name: "type", off: 29, width: 1, alpha: (0..=255).collect() }, Field { name: "num_colors", off: 32, width: 2, alpha: { let mut v: Vec<u32> = (0..=cap + 3).collect(); v.extend([0xFF, 0x100, 0x101, 0x5555, 0x5556, 0x7FFF, 0x8000, 0xAAAA, 0xAAAB, 0xFFFE, 0xFFFF]); v } }];
                push(kind, 0, bi::sample(kind, 1, 2), f(2));
                push(kind, 1, bi::sample(kind, 1, 0), f(2));
                push(kind, 2, bi::sample(kind, 1, 1), vec![Field { name: "type", off: 29, width: 1, alpha: (0..=255).collect() }]);
                // indexed, 4 colours and two spare bytes, ending on an 8-byte boundary: a colour count
                // that is only slightly too large reaches past the padded extent
                let mut spare = bi::enc_framebuffer(0xA0000, 320, 320, 200, 8, 0, &bi::enc_palette(&[(1, 2, 3), (4, 5, 6), (7, 8, 9), (10, 11, 12)]));
                spare.extend_from_slice(&[0xD1, 0xD2]);
                wr32(&mut spare, 4, 48);
                push(kind, 3, spare, f(4));
            }
            bi::ELF => {
                let f = vec![
                    Field { name: "num", off: 8, width: 4, alpha: range_edge(0, 5) },
                    Field { name: "entsize", off: 12, width: 4, alpha: strides() },
                    Field { name: "shndx", off: 16, width: 4, alpha: range_edge(0, 5) },
                    Field { name: "type0", off: 20 + 4, width: 4, alpha: ELF_TYPES.to_vec() },
                    Field { name: "type1", off: 20 + 64 + 4, width: 4, alpha: ELF_TYPES.to_vec() },
                ];
                push(kind, 0, elf_img(strtab_base), f);
                push(kind, 1, bi::enc_elf(0, 64, 0, &[]), vec![Field { name: "num", off: 8, width: 4, alpha: range_edge(0, 5) }, Field { name: "shndx", off: 16, width: 4, alpha: range_edge(0, 5) }]);
            }
            bi::SMBIOS | bi::NETWORK => {
                push(kind, 0, bi::sample(kind, 1, 5), vec![]);
                push(kind, 1, bi::sample(kind, 1, 0), vec![]);
                if kind == bi::SMBIOS {
                    // tables that are entry-point structures: contents that state their own length
                    for (i, img) in bi::smbios_entry_points().into_iter().enumerate() {
                        push(kind, 2 + i, img, vec![]);
                    }
                }
            }
            bi::ACPI2 => push(kind, 0, bi::sample(kind, 1, 0), vec![Field { name: "length", off: 28, width: 4, alpha: range_edge(0, 60) }]),
            bi::EFI_MMAP => {
                let f = vec![Field { name: "desc_size", off: 8, width: 4, alpha: strides() }, Field { name: "desc_version", off: 12, width: 4, alpha: { let mut v = vec![0, 2]; v.extend(EDGE32.iter().copied().filter(|e| *e > 2)); v } }];
                push(kind, 0, bi::sample(kind, 1, 2), f.clone());
                push(kind, 1, bi::sample(kind, 1, 0), f);
            }
            _ => push(kind, 0, bi::sample(kind, 1, 0), vec![]),
        }
    }
    push(bi::CUSTOM, 0, bi::sample(bi::CUSTOM, 1, 5), vec![]);
    out
}

/// Apply the chosen deviations; returns (tag bytes padded to the physical
/// length the slice will have, declared size, names of deviating fields).
fn apply(base: &Base, ch: &mut Chooser) -> (Vec<u8>, u32, Vec<(&'static str, u32)>) {
    let mut img = base.img.clone();
    let mut devs = vec![];
    for f in &base.fields {
        // alternative 0 = keep the well-formed value
        let c = ch.pick_dev(f.alpha.len() as u32 + 1);
        if c == 0 {
            continue;
        }
        let v = f.alpha[c as usize - 1];
        if f.off + f.width > img.len() {
            continue;
        }
        match f.width {
            1 => img[f.off] = v as u8,
            2 => wr16(&mut img, f.off, v as u16),
            _ => wr32(&mut img, f.off, v),
        }
        devs.push((f.name, v));
    }
    let size = rd32(&img, 4);
    let cap = base.img.len() + 17;
    let phys = if size >= 8 && size as usize <= cap { round8(size as usize) } else { round8(base.img.len()) };
    let n0 = img.len();
    img.resize(phys, 0);
    for i in n0..phys {
        img[i] = marker(i, 21);
    }
    (img, size, devs)
}

static UNIFORM: std::sync::atomic::AtomicBool = std::sync::atomic::AtomicBool::new(false);
fn opts_for(kind: u32, img: &[u8], memory_model: bool) -> BatOpts {
    let mut o = BatOpts { vbe_memory_model: true, elf_names: false };
    if kind == bi::VBE && img.len() > 555 && img[555] > 7 {
        o.vbe_memory_model = memory_model;
    }
    if kind == bi::ELF && img.len() >= 20 + 192 {
        // names only when the designated string-table entry is the one the harness built
        let (n, es, sx) = (rd32(img, 8), rd32(img, 12), rd32(img, 16));
        o.elf_names = es == 64 && n <= 3 && sx < n && !UNIFORM.load(std::sync::atomic::Ordering::Relaxed);
    }
    o
}

/// O3: every handed-out slice / reference lies inside the owning tag's padded extent.
fn extents(ctx: &mut Ctx, kind: u32, recs: &[Rec], seam: &'static str) {
    let size = recs.iter().find(|r| r.name == "header.size").and_then(|r| if let Val::U(v) = r.val { Some(v) } else { None });
    let Some(size) = size else { return };
    let ext = round8(size as usize) as i64;
    for r in recs {
        if let Val::S { off, len, .. } = r.val {
            if r.name == "section.name" {
                continue; // documented external address
            }
            if off < 0 || off + len as i64 > ext {
                ctx.violation(&format!("c01/extent/{}/{}/{}", seam, bi::kind_name(kind), r.name), || format!("{} of a {} tag of size {}: bytes [{}, {}) handed out, the tag's padded extent is [0, {})", r.name, bi::kind_name(kind), size, off, off + len as i64, ext));
            }
        }
        if r.name == "size_of_val" {
            if let Val::U(v) = r.val {
                if v as i64 > ext {
                    ctx.violation(&format!("c01/extent/{}/{}/size_of_val", seam, bi::kind_name(kind)), || format!("typed view of {} bytes on a tag whose padded extent is {}", v, ext));
                }
            }
        }
    }
}

fn tag_level(ctx: &mut Ctx, arena: &Arena, kind: u32, img: &[u8], memory_model: bool) {
    let o = opts_for(kind, img, memory_model);
    for right in [true, false] {
        ctx.under_fills(&format!("c01/o5/tag/{}", bi::kind_name(kind)), |ctx, fill| {
            let p = arena.put(img, right, fill);
            let slice: &[u8] = unsafe { std::slice::from_raw_parts(p, img.len()) };
            match ctx.call("ref_from_slice", || Generic::ref_from_slice(slice)) {
                Out::Panic => {
                    ctx.ob("rfs", 1);
                    ctx.class("tag:refused");
                }
                Out::Val(Err(_)) => {
                    ctx.ob("rfs", 2);
                    ctx.class("tag:refused");
                }
                Out::Val(Ok(g)) => {
                    let recs = {
                        let mut b = Bat::new(ctx, p);
                    b.resume = true;
                        b.derived = !UNIFORM.load(std::sync::atomic::Ordering::Relaxed);
                        battery::tag_level(&mut b, kind, g, o);
                        b.recs
                    };
                    battery::feed(ctx, &recs);
                    extents(ctx, kind, &recs, "tag");
                    ctx.class(if recs.iter().any(|r| r.val == Val::Panic) { "tag:controlled-panic" } else { "tag:values" });
                }
            }
        });
    }
}

/// The region-level program: load, Debug, every getter with its battery, the
/// tag walk, the module walk, the deprecated ELF getter - forwards, then
/// everything again in reverse order (statelessness).
fn region_level(ctx: &mut Ctx, arena: &Arena, region: &[u8], elf_names: bool, memory_model: bool) {
    let total = rd32(region, 0) as usize;
    for right in [true, false] {
        ctx.under_fills("c01/o5/region", |ctx, fill| {
            let p = arena.put(region, right, fill);
            let r = ctx.call("load", || unsafe { BootInformation::load(p as *const BootInformationHeader) });
            let bi = match r {
                Out::Val(Ok(bi)) => bi,
                Out::Val(Err(_)) => {
                    ctx.ob("load", 2);
                    ctx.class("region:load-error");
                    return;
                }
                Out::Panic => {
                    ctx.ob("load", 1);
                    ctx.class("region:load-panic");
                    return;
                }
            };
            ctx.class("region:loaded");
            let o = BatOpts { vbe_memory_model: memory_model, elf_names };
            let mut passes: Vec<Vec<Vec<Rec>>> = vec![];
            for pass in 0..2 {
                let mut lists: Vec<Vec<Rec>> = vec![Vec::new(); 26];
                let order: Vec<usize> = if pass == 0 { (0..26).collect() } else { (0..26).rev().collect() };
                for slot in order {
                    let mut b = Bat::new(ctx, p);
                    b.resume = true;
                    b.derived = !UNIFORM.load(std::sync::atomic::Ordering::Relaxed);
                    match slot {
                        0..=21 => {
                            let kind = slot as u32;
                            battery::getter_level(&mut b, kind, &bi, p, o);
                            let recs = std::mem::take(&mut b.recs);
                            drop(b);
                            extents(ctx, kind, &recs, "region");
                            // the typed reference itself must lie inside the region
                            if let Some(Rec { val: Val::U(off), .. }) = recs.iter().find(|r| r.name == "getter") {
                                let sov = recs.iter().find(|r| r.name == "size_of_val").and_then(|r| if let Val::U(v) = r.val { Some(v) } else { None }).unwrap_or(0);
                                if *off < 8 || off + sov > total as u64 {
                                    ctx.violation(&format!("c01/extent/region/{}/reference", bi::kind_name(kind)), || format!("typed reference [{}, {}) outside the region of {} bytes", off, off + sov, total));
                                }
                            }
                            lists[slot] = recs;
                        }
                        22 => {
                            if memory_model {
                                b.dbg("Debug(BootInformation)", &bi);
                            }
                            lists[slot] = b.recs;
                        }
                        23 => {
                            // tag walk; first the fold-based adapters (an iterator type may override them)
                            match b.ctx.call("tags.count", || bi.tags().count()) {
                                Out::Val(n) => b.recs.push(Rec { name: "tags.count", val: Val::U(n as u64) }),
                                Out::Panic => b.recs.push(Rec { name: "tags.count", val: Val::Panic }),
                            }
                            match b.ctx.call("tags.last", || bi.tags().last()) {
                                Out::Val(Some(t)) => {
                                    let off = rel(t, p);
                                    let sov = std::mem::size_of_val(t);
                                    b.recs.push(Rec { name: "tags.last", val: Val::S { off, len: sov, hash: 0 } });
                                    if off < 8 || off as usize + sov > total {
                                        b.recs.push(Rec { name: "tags.outside", val: Val::U(off as u64) });
                                    } else {
                                        b.s("tags.last.payload", || Ok(t.payload()));
                                    }
                                }
                                Out::Val(None) => b.recs.push(Rec { name: "tags.last", val: Val::E(0) }),
                                Out::Panic => b.recs.push(Rec { name: "tags.last", val: Val::Panic }),
                            }
                            if let Out::Val(mut it) = b.ctx.call("tags", || bi.tags()) {
                                for _ in 0..(total / 8 + 2) {
                                    match b.ctx.call("tags.next", || it.next()) {
                                        Out::Panic => {
                                            b.recs.push(Rec { name: "tags.next", val: Val::Panic });
                                            // a caller that catches the unwind and asks the same iterator again
                                            for _ in 0..2 {
                                                match b.ctx.call("tags.next-after-panic", || it.next()) {
                                                    Out::Panic => b.recs.push(Rec { name: "tags.resumed", val: Val::Panic }),
                                                    Out::Val(None) => {
                                                        b.recs.push(Rec { name: "tags.resumed", val: Val::E(0) });
                                                        break;
                                                    }
                                                    Out::Val(Some(t)) => {
                                                        let off = rel(t, p);
                                                        let sov = std::mem::size_of_val(t);
                                                        b.recs.push(Rec { name: "tags.resumed", val: Val::S { off, len: sov, hash: 0 } });
                                                        if off < 8 || off as usize + sov > total {
                                                            b.recs.push(Rec { name: "tags.outside", val: Val::U(off as u64) });
                                                        }
                                                    }
                                                }
                                            }
                                            break;
                                        }
                                        Out::Val(None) => {
                                            b.recs.push(Rec { name: "tags.next", val: Val::E(0) });
                                            break;
                                        }
                                        Out::Val(Some(t)) => {
                                            let off = rel(t, p);
                                            let sov = std::mem::size_of_val(t);
                                            b.recs.push(Rec { name: "tags.next", val: Val::S { off, len: sov, hash: 0 } });
                                            if off < 8 || off as usize + sov > total {
                                                b.recs.push(Rec { name: "tags.outside", val: Val::U(off as u64) });
                                            }
                                            b.s("tag.payload", || Ok(t.payload()));
                                        }
                                    }
                                }
                            }
                            let recs = std::mem::take(&mut b.recs);
                            drop(b);
                            if recs.iter().filter(|r| r.name == "tags.next").count() > total / 8 + 1 {
                                ctx.violation("c01/termination/tags", || "the tag iterator yields more items than 8-byte slots exist".into());
                            }
                            if recs.iter().any(|r| r.name == "tags.outside") {
                                ctx.violation("c01/extent/region/walk", || "the tag iterator handed out a tag outside the region".into());
                            }
                            lists[slot] = recs;
                        }
                        24 => {
                            if let Out::Val(mut it) = b.ctx.call("module_tags", || bi.module_tags()) {
                                b.dbg("Debug(ModuleIter)", &it);
                                for _ in 0..(total / 8 + 2) {
                                    match b.ctx.call("modules.next", || it.next()) {
                                        Out::Panic => {
                                            b.recs.push(Rec { name: "modules.next", val: Val::Panic });
                                            for _ in 0..2 {
                                                match b.ctx.call("modules.next-after-panic", || it.next()) {
                                                    Out::Panic => b.recs.push(Rec { name: "modules.resumed", val: Val::Panic }),
                                                    Out::Val(None) => {
                                                        b.recs.push(Rec { name: "modules.resumed", val: Val::E(0) });
                                                        break;
                                                    }
                                                    Out::Val(Some(m)) => {
                                                        let off = rel(m, p);
                                                        b.recs.push(Rec { name: "modules.resumed", val: Val::U(off as u64) });
                                                        if off < 8 || off as usize + std::mem::size_of_val(m) > total {
                                                            b.recs.push(Rec { name: "tags.outside", val: Val::U(off as u64) });
                                                        }
                                                    }
                                                }
                                            }
                                            break;
                                        }
                                        Out::Val(None) => break,
                                        Out::Val(Some(m)) => {
                                            b.recs.push(Rec { name: "modules.next", val: Val::U(rel(m, p) as u64) });
                                        }
                                    }
                                }
                            }
                            let recs = std::mem::take(&mut b.recs);
                            drop(b);
                            if recs.iter().any(|r| r.name == "tags.outside") {
                                ctx.violation("c01/extent/region/module-walk", || "the module iterator handed out a tag outside the region".into());
                            }
                            lists[slot] = recs;
                        }
                        _ => {
                            #[allow(deprecated)]
                            if let Out::Val(Some(mut it)) = b.ctx.call("elf_sections(deprecated)", || bi.elf_sections()) {
                                for _ in 0..10 {
                                    match b.ctx.call("elf_sections.next", || it.next().map(|s| s.section_type_raw())) {
                                        Out::Panic => {
                                            b.recs.push(Rec { name: "elf_sections.next", val: Val::Panic });
                                            break;
                                        }
                                        Out::Val(None) => break,
                                        Out::Val(Some(raw)) => b.recs.push(Rec { name: "elf_sections.next", val: Val::U(raw as u64) }),
                                    }
                                }
                            }
                            lists[slot] = b.recs;
                        }
                    }
                }
                passes.push(lists);
            }
            for slot in 0..26 {
                battery::feed(ctx, &passes[0][slot]);
                if passes[0][slot] != passes[1][slot] {
                    ctx.machinery(&format!("call group {} gives different results in declaration order and in reverse order: the statelessness assumption behind the accessor battery (DESIGN 2.4) does not hold", slot));
                }
            }
        });
    }
}

fn jdev(part: &str, base: &Base, devs: &[(&'static str, u32)], bytes: &[u8]) -> J {
    J::obj()
        .set("part", part)
        .set("kind", bi::kind_name(base.kind))
        .set("variant", base.variant)
        .set("deviations", J::Arr(devs.iter().map(|(n, v)| J::obj().set("field", *n).set("value", *v)).collect()))
        .set("bytes", J::hex(&bytes[..bytes.len().min(256)]))
        .set("len", bytes.len())
}

fn run(ctx: &mut Ctx) {
    let arena = Arena::new(4);
    let st = Arena::new(1);
    st.fill(0xEE);
    // cross-configuration runs must not embed addresses in the images
    let strtab_base = if ctx.uniform() { 0 } else { st.place_right(STRTAB) as u64 };
    let uniform = ctx.uniform();
    UNIFORM.store(uniform, std::sync::atomic::Ordering::Relaxed);
    let quick = ctx.quick();
    let budget = if quick { 1 } else { 2 };
    let all = bases(strtab_base);
    // ---------------- tag level
    ctx.bound("tag_level", format!("22 kinds + custom, 1-3 well-formed variants each; deviation budget {}: tag size 0..=extent+17 + EDGE32, mmap entry_size / EFI desc_size / ELF entsize 0..=129 + EDGE32 + {{24, 40, 48, 64}} + k * 2^30 (the product with 2 or 4 entries wraps around 2^32), EFI desc_version, palette count 0..=cap+3 + {{0xFF, 0x100, 0x101, 0x5555, 0x5556 (3 x count crosses 2^16), 0x7FFF, 0x8000, 0xAAAA, 0xAAAB (3 x count crosses 2^17), 0xFFFE, 0xFFFF}}, framebuffer type byte and VBE memory model all 256 values, RSDPv2 length 0..=60 + EDGE32, ELF num / shndx 0..=5 + EDGE32, raw ELF types; slice = the tag's padded extent, flush-right and flush-left against PROT_NONE guard pages, fills A/B; program = cast + every accessor + Debug, each under catch_unwind; EFI-descriptor and ELF-section iterators (and a clone, and their Debug output) are polled on after a caught panic", budget));
    for base in &all {
        enumerate(budget, |ch| {
            let (img, _size, devs) = apply(base, ch);
            let mm_bad = base.kind == bi::VBE && img.len() > 555 && img[555] > 7;
            ctx.leaf(
                || jdev("tag", base, &devs, &img),
                |ctx| {
                    ctx.state(hash::hash_bytes(&img));
                    ctx.nontrivial();
                    tag_level(ctx, &arena, base.kind, &img, false);
                },
            );
            if mm_bad {
                // known finding F15: Debug of an undefined VBE memory model value - run alone in a child
                ctx.probe("c01/vbe-memory-model-debug", || jdev("tag-probe", base, &devs, &img), |ctx| tag_level(ctx, &arena, base.kind, &img, true));
            }
        });
    }
    // ---------------- region level
    ctx.bound("region_level", "regions [deviating tag][conformant neighbour][end] and [neighbour][deviating tag][end] for every budget-1 tag image above (size alphabet thinned to the values around each 8-byte boundary in the quick tier) and three neighbours (16, 12 and 316 bytes); total-size words cutting the last tag (alone, and with a conformant tag in front of it) with an end tag written at the cut; flush-right and flush-left, fills A/B; program = load, Debug, all 22 getters with their batteries, tag walk, module walk, deprecated ELF getter, forwards and in reverse order");
    let neighbours = [bi::sample(bi::MEMINFO, 5, 0), bi::sample(bi::CMDLINE, 5, 3), bi::sample(bi::SMBIOS, 5, 300)];
    for base in &all {
        enumerate(1, |ch| {
            let (img, size, devs) = apply(base, ch);
            if quick && devs.iter().any(|d| d.0 == "size") {
                // thin the size alphabet: keep values within 1 of a multiple of 8, and the edges
                let s = size as usize;
                if s <= base.img.len() + 17 && !(s % 8 <= 1 || s % 8 == 7) {
                    return;
                }
            }
            let mm_bad = base.kind == bi::VBE && img.len() > 555 && img[555] > 7;
            let o = opts_for(base.kind, &img, false);
            for (ni, nb) in neighbours.iter().enumerate() {
                for first in [true, false] {
                    let tags = if first { vec![img.clone(), nb.clone(), bi::end_tag()] } else { vec![nb.clone(), img.clone(), bi::end_tag()] };
                    // the deviating image is already physically padded; region() pads the others
                    let region = bi::region(&tags, &bi::marker_pad);
                    ctx.leaf(
                        || jdev("region", base, &devs, &region).set("neighbour", ni).set("deviating_tag_first", first),
                        |ctx| {
                            ctx.state(hash::hash_bytes(&region));
                            ctx.nontrivial();
                            region_level(ctx, &arena, &region, o.elf_names, !mm_bad);
                        },
                    );
                }
            }
        });
    }
    // total sizes cutting the last tag
    for base in &all {
        if base.variant != 0 {
            continue;
        }
      for with_front in [false, true] {
        // (second pass: a conformant tag in front, so that the cut tag is not the first one)
        let full = if with_front { bi::region(&[bi::sample(bi::MEMINFO, 5, 0), base.img.clone(), bi::end_tag()], &bi::marker_pad) } else { bi::region(&[base.img.clone(), bi::end_tag()], &bi::marker_pad) };
        let mut t = if with_front { 32 } else { 16 };
        while t <= full.len() + 16 {
            let mut region = full.clone();
            region.resize(t.max(full.len()), 0xB9);
            region.truncate(t);
            wr32(&mut region, 0, t as u32);
            wr32(&mut region, t - 8, 0);
            wr32(&mut region, t - 4, 8);
            let o = opts_for(base.kind, &base.img, true);
            ctx.leaf(
                || jdev("region-cut", base, &[], &region).set("total_size", t),
                |ctx| {
                    ctx.state(hash::hash_bytes(&region));
                    ctx.nontrivial();
                    region_level(ctx, &arena, &region, o.elf_names && t >= full.len(), true);
                },
            );
            t += 8;
        }
      }
    }
    // ---------------- deep structures: work (and stack use) proportional to the number of elements
    ctx.bound("deep_structures", "regions of 20000 header-only custom tags, of 5000 module tags, and an ELF-sections tag with 20000 unused entries followed by two used ones (engines run with a 256 KiB stack: recursion per element overflows it); same program");
    let deep = Arena::new(400);
    let mut deep_regions: Vec<(&'static str, Vec<u8>)> = vec![];
    {
        let mut tags: Vec<Vec<u8>> = (0..20000).map(|_| bi::tag(0x1337, &[])).collect();
        tags.push(bi::sample(bi::MODULE, 1, 3));
        tags.push(bi::end_tag());
        deep_regions.push(("20000 custom tags", bi::region(&tags, &bi::zero_pad)));
        let mut tags: Vec<Vec<u8>> = (0..5000u32).map(|i| bi::enc_module(i, i + 1, b"m\0")).collect();
        tags.push(bi::end_tag());
        deep_regions.push(("5000 modules", bi::region(&tags, &bi::zero_pad)));
        let n = 20002u32;
        let mut sec = vec![0u8; n as usize * 64];
        for i in [n - 2, n - 1] {
            let e = bi::enc_shdr64(0, if i == n - 1 { 3 } else { 1 }, 2, 0x1000, 0, 0x10, 0, 0, 8, 0);
            sec[i as usize * 64..(i as usize + 1) * 64].copy_from_slice(&e);
        }
        deep_regions.push(("ELF tag with 20000 unused entries", bi::region(&[bi::enc_elf(n, 64, n, &sec), bi::end_tag()], &bi::zero_pad)));
    }
    for (what, region) in &deep_regions {
        ctx.leaf(
            || J::obj().set("part", "deep_structures").set("what", *what).set("region_len", region.len()),
            |ctx| {
                ctx.state(hash::hash_bytes(region));
                ctx.nontrivial();
                region_level(ctx, &deep, region, false, true);
            },
        );
    }
}

fn main() {
    main_wrap("C01", run);
}
