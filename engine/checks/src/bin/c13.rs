//! C13 - searching a binary image for the header is exact and total.
use mbvlib::spec::*;
use mbvlib::*;
use multiboot2_header::Multiboot2Header;

const MAGIC_LE: [u8; 4] = [0xD6, 0x50, 0x52, 0xE8];

/// Independent scan: first occurrence of the magic fully inside
/// `buffer[..min(len, 8192)]`.
fn first_magic(buf: &[u8]) -> Option<usize> {
    let w = buf.len().min(8192);
    if w < 4 {
        return None;
    }
    (0..=w - 4).find(|&i| buf[i..i + 4] == MAGIC_LE)
}

#[derive(Debug, PartialEq, Eq, Clone, Copy)]
enum Exp {
    NoHeader,
    Error,
    Found { at: usize, len: usize },
}

fn reference(buf: &[u8]) -> Exp {
    match first_magic(buf) {
        None => Exp::NoHeader,
        Some(i) => {
            if i % 8 != 0 || i + 12 > buf.len() {
                return Exp::Error;
            }
            let len = rd32(buf, i + 8) as usize;
            if i + len > buf.len() {
                Exp::Error
            } else {
                Exp::Found { at: i, len }
            }
        }
    }
}

fn lens(quick: bool) -> Vec<usize> {
    let mut v: Vec<usize> = (0..=if quick { 96 } else { 288 }).collect();
    let r = if quick { 40 } else { 136 };
    v.extend(8192 - r..=8192 + r);
    v.extend(16384 - 16..=16384 + 16);
    // block sizes a scanning loop may work in: both sides of every power of two from 128 to 4096
    for k in 7..=12 {
        v.extend((1usize << k) - 4..=(1usize << k) + if quick { 6 } else { 20 });
    }
    v.sort_unstable();
    v.dedup();
    v
}

fn positions(l: usize, quick: bool) -> Vec<usize> {
    // first-magic positions: near the buffer start, the window end and the buffer end
    let r = if quick { 24 } else { 72 };
    let mut v: Vec<usize> = Vec::new();
    let mut add = |lo: isize, hi: isize| {
        for p in lo..=hi {
            if p >= 0 && (p as usize) + 4 <= l && !v.contains(&(p as usize)) {
                v.push(p as usize);
            }
        }
    };
    add(0, r as isize);
    add(8192 - r as isize, 8192 + 8);
    add(l as isize - r as isize, l as isize);
    v
}

fn run(ctx: &mut Ctx) {
    let quick = ctx.quick();
    ctx.bound("space", format!("buffer lengths 0..=96 (thorough: 0..=288), 8192-{r}..=8192+{r}, 16384-16..=16384+16, 2^k-4..=2^k+6 (thorough: +20) for k in 7..=12; no magic, or first magic at every offset within {p} bytes of the buffer start / of offset 8192 / of the buffer end; stored length word in {{0,8,16,24,0x10010,L-i-8,L-i-1,L-i,L-i+1,0xFFFFFFFF}}; a second magic {{none, 8 bytes earlier, 5 bytes earlier, 16 bytes later}}; zero filler; buffer 8-aligned, flush against a PROT_NONE guard page when its length is a multiple of 8 and otherwise at most 7 bytes before it, those slack bytes varied between two fills", r = if quick { 40 } else { 136 }, p = if quick { 24 } else { 72 }));
    let arena = Arena::new(6);
    scan_automaton(ctx, &arena);
    // foreign and structured contents: headers of other byte orders / other boot protocols in front of (or instead
    // of) a real header, and real headers with a tag chain whose stored length goes on behind the end tag
    ctx.bound("foreign_and_structured", "buffers holding, at offset 0 / 8 / 5, a big-endian Multiboot2 header (both architectures), a Multiboot1 header, the boot-loader magic 0x36D76289, an ELF32 / ELF64 identification, a DOS/PE stub, a gzip magic, each alone and followed by a real header; real headers with tags [entry][end] and a stored length that ends at, 8, 16 or 24 bytes behind the end tag, or cuts it");
    {
        let be = |arch: u32, len: u32| -> Vec<u8> {
            let mut v = vec![];
            for w in [0xE852_50D6u32, arch, len, 0u32.wrapping_sub(0xE852_50D6).wrapping_sub(arch).wrapping_sub(len)] {
                v.extend_from_slice(&w.to_be_bytes());
            }
            v
        };
        let le_hdr = |arch: u32, extra: usize, cut: usize| -> Vec<u8> {
            // [16-byte header][entry address tag 12 -> 16][end tag 8][extra filler]; stored length = everything - cut
            let mut v = vec![0u8; 16];
            v.extend_from_slice(&[3, 0, 0, 0, 12, 0, 0, 0, 0x00, 0x00, 0x10, 0x00, 0, 0, 0, 0]);
            v.extend_from_slice(&[0, 0, 0, 0, 8, 0, 0, 0]);
            v.extend((0..extra).map(|i| 0x21 + (i as u8 % 64) * 2 + 1));
            let len = (v.len() - cut) as u32;
            v[0..4].copy_from_slice(&MAGIC_LE);
            wr32(&mut v, 4, arch);
            wr32(&mut v, 8, len);
            wr32(&mut v, 12, 0u32.wrapping_sub(0xE852_50D6).wrapping_sub(arch).wrapping_sub(len));
            v
        };
        let mut foreign: Vec<(&'static str, Vec<u8>)> = vec![
            ("big-endian header, i386", be(0, 16)),
            ("big-endian header, MIPS32", be(4, 16)),
            ("big-endian header, MIPS32, length 24", { let mut v = be(4, 24); v.extend_from_slice(&[0, 0, 0, 0, 0, 0, 0, 8]); v }),
            ("Multiboot1 header", { let mut v = vec![]; for w in [0x1BAD_B002u32, 3, 0u32.wrapping_sub(0x1BAD_B002 + 3)] { v.extend_from_slice(&w.to_le_bytes()); } v.extend_from_slice(&[0; 4]); v }),
            ("boot-loader magic", { let mut v = 0x36D7_6289u32.to_le_bytes().to_vec(); v.extend_from_slice(&[4, 0, 0, 0, 16, 0, 0, 0, 0, 0, 0, 0]); v }),
        ];
        // file headers a kernel image starts with
        foreign.push(("ELF32 identification", vec![0x7F, b'E', b'L', b'F', 1, 1, 1, 0, 0, 0, 0, 0, 0, 0, 0, 0]));
        foreign.push(("ELF64 identification", vec![0x7F, b'E', b'L', b'F', 2, 1, 1, 0, 0, 0, 0, 0, 0, 0, 0, 0]));
        foreign.push(("DOS / PE stub", { let mut v = vec![b'M', b'Z', 0x90, 0, 3, 0, 0, 0]; v.extend_from_slice(&[4, 0, 0, 0, 0xFF, 0xFF, 0, 0]); v }));
        foreign.push(("gzip magic", vec![0x1F, 0x8B, 8, 0, 0, 0, 0, 0]));
        foreign.push(("nothing", vec![]));
        let mut cases: Vec<(String, Vec<u8>)> = vec![];
        for (name, f) in &foreign {
            for at in [0usize, 8, 5] {
                for real in 0..3 {
                    let mut b = vec![0u8; at];
                    b.extend_from_slice(f);
                    while b.len() % 8 != 0 {
                        b.push(0);
                    }
                    match real {
                        1 => b.extend_from_slice(&le_hdr(0, 0, 0)),
                        2 => {
                            b.extend_from_slice(&[0; 8]);
                            b.extend_from_slice(&le_hdr(4, 8, 0));
                        }
                        _ => {}
                    }
                    b.extend_from_slice(&[0; 16]);
                    cases.push((format!("{} at offset {}, {}", name, at, ["no real header", "real header behind it", "real MIPS32 header 8 bytes further"][real]), b));
                }
            }
        }
        for arch in [0u32, 4] {
            for extra in [0usize, 8, 16, 24] {
                for cut in [0usize, 8, 16] {
                    if cut > extra + 8 {
                        continue;
                    }
                    for at in [0usize, 8, 24] {
                        let mut b = vec![0u8; at];
                        b.extend_from_slice(&le_hdr(arch, extra, cut));
                        cases.push((format!("header with tags, arch {}, {} bytes behind the end tag, stored length {} bytes short, at offset {}", arch, extra, cut, at), b));
                    }
                }
            }
        }
        for (what, img) in cases {
            let describe = || J::obj().set("part", "foreign_and_structured").set("what", what.as_str()).set("buffer", J::hex(&img));
            ctx.leaf(describe, |ctx| {
                ctx.state(hash::hash_bytes(&img));
                ctx.nontrivial();
                exec_image(ctx, &arena, &img);
            });
        }
    }
    let big = Arena::new(270);
    // two candidates: the first occurrence decides, however good the second one looks
    ctx.bound("two_candidates", "buffers of 256, 8200 and 8256 bytes with two occurrences of the magic: the first at {0, 8, 12, 64} in a state from {bare magic, header with valid checksum (length 16 / 24), wrong checksum, all-ones length, stored length beyond the buffer, valid checksum with a stored length of 0 / 8 / 12 / 15}, the second 16 / 24 / 40 bytes further or at 4096 / 8176 / 8184 in each of these states or cut off by the buffer end; both architectures");
    {
        let cand = |state: usize, arch: u32, room: usize| -> Vec<u8> {
            let mut v = MAGIC_LE.to_vec();
            let (len, good): (u32, bool) = match state {
                0 => return v,
                1 => (16, true),
                2 => (24, true),
                3 => (16, false),
                4 => (0xFFFF_FFFF, true),
                5 => (room as u32 + 8, true),
                // stored lengths below the basic header's own 16 bytes, checksum valid
                6 => (0, true),
                7 => (8, true),
                8 => (12, true),
                _ => (15, true),
            };
            v.extend_from_slice(&arch.to_le_bytes());
            v.extend_from_slice(&len.to_le_bytes());
            let cs = 0u32.wrapping_sub(0xE852_50D6).wrapping_sub(arch).wrapping_sub(len);
            v.extend_from_slice(&(if good { cs } else { 0x1234_5678 }).to_le_bytes());
            if state == 2 {
                v.extend_from_slice(&[0, 0, 0, 0, 8, 0, 0, 0]);
            }
            v
        };
        for l in [256usize, 8200, 8256] {
            for first in [0usize, 8, 12, 64] {
                for s1 in 0..10 {
                    let mut seconds: Vec<usize> = vec![first + 16, first + 24, first + 40];
                    if l > 8192 {
                        seconds.extend([4096, 8176, 8184, l - 8, l - 4]);
                    } else {
                        seconds.extend([l - 16, l - 8, l - 4]);
                    }
                    for second in seconds {
                        for s2 in 0..10 {
                            for arch in [0u32, 4] {
                                let describe = || J::obj().set("part", "two_candidates").set("buffer_len", l).set("first_at", first).set("first_state", s1).set("second_at", second).set("second_state", s2).set("architecture", arch);
                                ctx.leaf(describe, |ctx| {
                                    let mut img = vec![0u8; l];
                                    // the second one first, the first one on top of it where they overlap
                                    let c2 = cand(s2, arch, l - second);
                                    let n2 = c2.len().min(l - second);
                                    img[second..second + n2].copy_from_slice(&c2[..n2]);
                                    let c1 = cand(s1, arch, l - first);
                                    img[first..first + c1.len()].copy_from_slice(&c1);
                                    ctx.state(hash::hash_bytes(&img));
                                    ctx.nontrivial();
                                    exec_image(ctx, &big, &img);
                                });
                            }
                        }
                    }
                }
            }
        }
    }
    // large buffers and large stored lengths (the specification's 32 KiB header limit, 16-bit and 20-bit boundaries)
    let bigl: Vec<usize> = if quick { vec![32768 + 16, 65536 + 8, 1 << 20] } else { vec![32768 - 8, 32768, 32768 + 16, 65536 - 8, 65536, 65536 + 8, 65543, 1 << 20, (1 << 20) + 24] };
    ctx.bound("large_buffers", format!("buffer lengths {:?}; magic at offset {{0, 8, 4096, 8184}}; stored length in {{L-i, L-i-8, L-i+8, 32760, 32768, 32776, 65528, 65536, 65544, 16}}", bigl));
    for &l in &bigl {
        for at in [0usize, 8, 4096, 8184] {
            let rest = (l - at) as u32;
            let mut stored: Vec<u32> = vec![rest, rest - 8, rest + 8, 32760, 32768, 32776, 65528, 65536, 65544, 16];
            stored.dedup();
            for st in stored {
                let describe = || J::obj().set("part", "large_buffers").set("buffer_len", l).set("magic_at", at).set("stored_length_word", st);
                ctx.leaf(describe, |ctx| {
                    ctx.state_direct();
                    ctx.nontrivial();
                    let mut img = vec![0u8; l];
                    for (i, b) in img.iter_mut().enumerate().skip(at + 16) {
                        *b = (i % 251) as u8 | 1; // never a magic byte sequence: D6 50 52 E8 needs an even byte
                    }
                    img[at..at + 4].copy_from_slice(&MAGIC_LE);
                    wr32(&mut img, at + 8, st);
                    exec_image(ctx, &big, &img);
                });
            }
        }
    }
    for l in lens(quick) {
        // case 0: no magic at all
        let mut cases: Vec<(Option<usize>, u32, u8)> = vec![(None, 0, 0)];
        for i in positions(l, quick) {
            let rest = l as i64 - i as i64;
            let mut stored: Vec<u32> = vec![0, 8, 16, 24, 0x0001_0010, 0xFFFF_FFFF];
            for d in [rest - 8, rest - 1, rest, rest + 1] {
                if d >= 0 && !stored.contains(&(d as u32)) {
                    stored.push(d as u32);
                }
            }
            for s in stored {
                for second in 0..4u8 {
                    cases.push((Some(i), s, second));
                }
            }
        }
        for (pos, stored, second) in cases {
            let build = || {
                let mut b = vec![0u8; l];
                if let Some(i) = pos {
                    b[i..i + 4].copy_from_slice(&MAGIC_LE);
                    if i + 12 <= l {
                        wr32(&mut b, i + 8, stored);
                    }
                    let sec: Option<isize> = match second {
                        1 => Some(i as isize - 8),
                        2 => Some(i as isize - 5),
                        3 => Some(i as isize + 16),
                        _ => None,
                    };
                    if let Some(s) = sec {
                        if s >= 0 && (s as usize) + 4 <= l {
                            b[s as usize..s as usize + 4].copy_from_slice(&MAGIC_LE);
                        }
                    }
                }
                b
            };
            let describe = || {
                J::obj()
                    .set("buffer_len", l)
                    .set("magic_at", pos.map(|p| J::from(p)).unwrap_or(J::Null))
                    .set("stored_length_word", stored)
                    .set("second_magic", match second { 1 => "8 bytes earlier", 2 => "5 bytes earlier", 3 => "16 bytes later", _ => "none" })
            };
            ctx.leaf(describe, |ctx| {
                let img = build();
                let exp = reference(&img);
                ctx.state(hash::hash_bytes(&img) ^ (l as u64).rotate_left(40));
                ctx.under_fills("c13/o5", |ctx, fill| {
                    // slack after the buffer continues a possible magic prefix under fill A
                    arena.fill(fill);
                    let start = arena.len() - round8(l);
                    let p = arena.place_at(start, &img);
                    if fill == arena::FILL_A {
                        let slack = round8(l) - l;
                        let tail: Vec<u8> = MAGIC_LE.iter().cycle().skip(0).take(slack).copied().collect();
                        // make the slack complete a magic that starts in the last 3 bytes, if any
                        for k in 1..4usize {
                            if l >= k && img[l - k..] == MAGIC_LE[..k] {
                                let cont: Vec<u8> = MAGIC_LE[k..].iter().copied().chain(tail.iter().copied()).take(slack).collect();
                                arena.place_at(start + l, &cont);
                            }
                        }
                    }
                    let buf: &[u8] = unsafe { std::slice::from_raw_parts(p, l) };
                    let r = ctx.call("find_header", || {
                        Multiboot2Header::find_header(buf).map(|o| o.map(|(s, i)| (s.as_ptr() as usize - buf.as_ptr() as usize, s.len(), i)))
                    });
                    match r {
                        Out::Panic => {
                            ctx.ob("fh.panic", 1);
                            ctx.class("find:panic");
                            ctx.violation(&format!("c13/panic/{}", match exp { Exp::NoHeader => "no-header", Exp::Error => "error-expected", Exp::Found { .. } => "header-present" }), || {
                                format!("find_header panicked on a buffer of {} bytes (expected {:?})", l, exp)
                            });
                        }
                        Out::Val(Ok(None)) => {
                            ctx.ob("fh.none", 1);
                            if exp == Exp::NoHeader {
                                ctx.class("find:none");
                            } else {
                                ctx.violation("c13/missed", || format!("find_header reports no header but the magic occurs in the scanned window (expected {:?}, buffer {} bytes)", exp, l));
                            }
                        }
                        Out::Val(Err(_)) => {
                            ctx.ob("fh.err", 1);
                            if exp == Exp::Error {
                                ctx.class("find:error");
                            } else {
                                ctx.violation(&format!("c13/spurious-error/{}", if exp == Exp::NoHeader { "no-header" } else { "header-present" }), || format!("find_header returned an error, expected {:?} (buffer {} bytes)", exp, l));
                            }
                        }
                        Out::Val(Ok(Some((off, len, idx)))) => {
                            ctx.ob("fh.off", off as u64);
                            ctx.ob("fh.len", len as u64);
                            ctx.ob("fh.idx", idx as u64);
                            match exp {
                                Exp::Found { at, len: elen } if at == off && at == idx as usize && elen == len => ctx.class("find:found"),
                                _ => ctx.violation("c13/wrong-result", || format!("find_header returned sub-slice [{}..{}) index {}, expected {:?} (buffer {} bytes)", off, off + len, idx, exp, l)),
                            }
                        }
                    }
                });
                ctx.nontrivial();
            });
        }
    }
}

fn show(img: &[u8]) -> String {
    if img.len() <= 96 { json::hex(img) } else { format!("{}.. ({} bytes)", json::hex(&img[..48]), img.len()) }
}

/// One find_header call on an exact image; shared by the structured and the exhaustive-alphabet bodies.
fn exec_image(ctx: &mut Ctx, arena: &Arena, img: &[u8]) {
    let l = img.len();
    let exp = reference(img);
    arena.fill(arena::FILL_B);
    let start = arena.len() - round8(l);
    let p = arena.place_at(start, img);
    let buf: &[u8] = unsafe { std::slice::from_raw_parts(p, l) };
    let r = ctx.call("find_header", || Multiboot2Header::find_header(buf).map(|o| o.map(|(s, i)| (s.as_ptr() as usize - buf.as_ptr() as usize, s.len(), i))));
    match r {
        Out::Panic => {
            ctx.ob("fh.panic", 1);
            ctx.violation("c13/scan/panic", || format!("find_header panicked on {} (expected {:?})", show(img), exp));
        }
        Out::Val(Ok(None)) => {
            ctx.ob("fh.none", 1);
            if exp == Exp::NoHeader {
                ctx.class("scan:none");
            } else {
                ctx.violation("c13/scan/missed", || format!("find_header reports no header in {} but the magic occurs (expected {:?})", show(img), exp));
            }
        }
        Out::Val(Err(_)) => {
            ctx.ob("fh.err", 1);
            if exp == Exp::Error {
                ctx.class("scan:error");
            } else {
                ctx.violation("c13/scan/spurious-error", || format!("find_header returned an error on {}, expected {:?}", show(img), exp));
            }
        }
        Out::Val(Ok(Some((off, len, idx)))) => {
            ctx.ob("fh.off", off as u64);
            ctx.ob("fh.len", len as u64);
            match exp {
                Exp::Found { at, len: elen } if at == off && at == idx as usize && elen == len => ctx.class("scan:found"),
                _ => ctx.violation("c13/scan/wrong-result", || format!("find_header returned [{}..{}) index {} on {}, expected {:?}", off, off + len, idx, show(img), exp)),
            }
        }
    }
}

/// Every buffer over the magic's own byte alphabet {D6,50,52,E8} plus 00: all partial matches, overlaps and
/// repetitions a scanning loop can meet.
fn scan_automaton(ctx: &mut Ctx, arena: &Arena) {
    const A: [u8; 5] = [0x00, 0xD6, 0x50, 0x52, 0xE8];
    let maxl = if ctx.quick() { 8 } else { 10 };
    ctx.bound("scan_automaton", format!("every byte string over {{00,D6,50,52,E8}} of length 0..={} as the whole buffer, and every such string of length 8 followed by a 16-byte tail whose first word is a stored length in {{0,16,24,0xFFFFFFFF}} (all partial matches, overlaps and repetitions of the magic a scan loop can meet, first occurrence at every offset 0..=8)", maxl));
    for len in 0..=maxl {
        for code in 0..5usize.pow(len as u32) {
            let mut img = Vec::with_capacity(len);
            let mut c = code;
            for _ in 0..len {
                img.push(A[c % 5]);
                c /= 5;
            }
            ctx.leaf(|| J::obj().set("part", "scan-automaton").set("buffer", J::hex(&img)), |ctx| {
                ctx.state_direct();
                if img.contains(&0xD6) {
                    ctx.nontrivial();
                }
                exec_image(ctx, arena, &img);
            });
        }
    }
    for code in 0..5usize.pow(8) {
        for stored in [16u32, 0, 24, 0xFFFF_FFFF] {
            let mut img = Vec::with_capacity(24);
            let mut c = code;
            for _ in 0..8 {
                img.push(A[c % 5]);
                c /= 5;
            }
            img.extend_from_slice(&stored.to_le_bytes());
            img.extend_from_slice(&[0u8; 12]);
            ctx.leaf(|| J::obj().set("part", "scan-automaton+tail").set("buffer", J::hex(&img)), |ctx| {
                ctx.state_direct();
                ctx.nontrivial();
                exec_image(ctx, arena, &img);
            });
        }
    }
}

fn main() {
    main_wrap("C13", run);
}
