//! C20 - type-identifier conversions are lossless and consistent for all
//! 2^32 values; ELF / framebuffer classification is total; MAGIC constants.
use mbvlib::spec::*;
use mbvlib::*;
use multiboot2::{
    DynSizedStructure, ElfSectionType, ElfSectionsTag, FramebufferTag, FramebufferType, MemoryAreaType,
    MemoryAreaTypeId, TagHeader, TagType, TagTypeId,
};

/// Reference table: the specified numbers of the named variants.
const NAMED: [TagType; 22] = [
    TagType::End,
    TagType::Cmdline,
    TagType::BootLoaderName,
    TagType::Module,
    TagType::BasicMeminfo,
    TagType::Bootdev,
    TagType::Mmap,
    TagType::Vbe,
    TagType::Framebuffer,
    TagType::ElfSections,
    TagType::Apm,
    TagType::Efi32,
    TagType::Efi64,
    TagType::Smbios,
    TagType::AcpiV1,
    TagType::AcpiV2,
    TagType::Network,
    TagType::EfiMmap,
    TagType::EfiBs,
    TagType::Efi32Ih,
    TagType::Efi64Ih,
    TagType::LoadBaseAddr,
];

fn expected_tag_type(v: u32) -> TagType {
    if (v as usize) < NAMED.len() {
        NAMED[v as usize]
    } else {
        TagType::Custom(v)
    }
}

fn expected_area_type(v: u32) -> MemoryAreaType {
    match v {
        1 => MemoryAreaType::Available,
        2 => MemoryAreaType::Reserved,
        3 => MemoryAreaType::AcpiAvailable,
        4 => MemoryAreaType::ReservedHibernate,
        5 => MemoryAreaType::Defective,
        v => MemoryAreaType::Custom(v),
    }
}

/// All eight equality directions between raw numbers, ids and symbolic types
/// must agree with numeric equality of `v` and `w`.
fn eq_law(v: u32, w: u32) -> Result<(), String> {
    let want = v == w;
    let (tv, tw) = (TagType::from(v), TagType::from(w));
    let (iv, iw) = (TagTypeId::from(v), TagTypeId::from(w));
    let got = [
        tv == iw,
        iv == tw,
        iv == w,
        v == iw,
        tv == w,
        v == tw,
        iv == iw,
        tv == tw,
    ];
    for (k, g) in got.iter().enumerate() {
        if *g != want {
            return Err(format!("equality direction #{} of ({:#x}, {:#x}) says {} but the numbers are {}", k, v, w, g, if want { "equal" } else { "different" }));
        }
    }
    let (av, aw) = (MemoryAreaType::from(MemoryAreaTypeId::from(v)), MemoryAreaType::from(MemoryAreaTypeId::from(w)));
    let (bv, bw) = (MemoryAreaTypeId::from(v), MemoryAreaTypeId::from(w));
    let got = [av == bw, bv == aw, bv == bw, av == aw];
    for (k, g) in got.iter().enumerate() {
        if *g != want {
            return Err(format!("memory-area equality direction #{} of ({:#x}, {:#x}) says {}", k, v, w, g));
        }
    }
    Ok(())
}

fn conv_law(v: u32) -> Result<u64, String> {
    let t = TagType::from(v);
    if t != expected_tag_type(v) {
        return Err(format!("TagType::from = {:?}, specified {:?}", t, expected_tag_type(v)));
    }
    if u32::from(t) != v || t.val() != v {
        return Err(format!("TagType round trip gives {:#x} / val() {:#x}", u32::from(t), t.val()));
    }
    let id = TagTypeId::from(v);
    if u32::from(id) != v || u32::from(TagTypeId::new(v)) != v {
        return Err("TagTypeId round trip".into());
    }
    if TagType::from(id) != t {
        return Err(format!("TagType::from(TagTypeId) = {:?} but TagType::from(u32) = {:?}", TagType::from(id), t));
    }
    if u32::from(TagTypeId::from(t)) != v {
        return Err(format!("TagTypeId::from(TagType) = {:#x}", u32::from(TagTypeId::from(t))));
    }
    if u32::from(TagTypeId::from(expected_tag_type(v))) != v || u32::from(expected_tag_type(v)) != v {
        return Err(format!("the specified variant {:?} converts to {:#x}", expected_tag_type(v), u32::from(expected_tag_type(v))));
    }
    // memory area types
    let mid = MemoryAreaTypeId::from(v);
    if u32::from(mid) != v {
        return Err("MemoryAreaTypeId round trip".into());
    }
    let mt = MemoryAreaType::from(mid);
    if mt != expected_area_type(v) {
        return Err(format!("MemoryAreaType::from = {:?}, specified {:?}", mt, expected_area_type(v)));
    }
    if u32::from(MemoryAreaTypeId::from(mt)) != v || u32::from(MemoryAreaTypeId::from(expected_area_type(v))) != v {
        return Err(format!("MemoryAreaType round trip gives {:#x}", u32::from(MemoryAreaTypeId::from(mt))));
    }
    // a hand-made Custom(v) - also for the specified numbers - converts back to v and compares equal to v
    let c = TagType::Custom(v);
    if u32::from(c) != v || c.val() != v || u32::from(TagTypeId::from(c)) != v {
        return Err(format!("TagType::Custom({:#x}) converts to {:#x}", v, u32::from(c)));
    }
    if !(c == v && v == c && c == id && id == c) || c == v.wrapping_add(1) || v.wrapping_add(1) == c {
        return Err(format!("TagType::Custom({:#x}) does not compare like the number", v));
    }
    let mc = MemoryAreaType::Custom(v);
    if u32::from(MemoryAreaTypeId::from(mc)) != v || !(mc == mid && mid == mc) {
        return Err(format!("MemoryAreaType::Custom({:#x}) does not convert / compare like the number", v));
    }
    eq_law(v, v)?;
    eq_law(v, v.wrapping_add(1))?;
    Ok(v as u64)
}

fn eq_lattice_law(v: u32) -> Result<u64, String> {
    for b in 0..32 {
        eq_law(v, v ^ (1 << b))?;
    }
    for w in 0..=22u32 {
        eq_law(v, w)?;
        eq_law(w, v)?;
    }
    Ok(v as u64)
}

#[repr(C, align(8))]
struct Aligned<const N: usize>([u8; N]);

fn expected_elf(v: u32) -> Option<ElfSectionType> {
    Some(match v {
        1 => ElfSectionType::ProgramSection,
        2 => ElfSectionType::LinkerSymbolTable,
        3 => ElfSectionType::StringTable,
        4 => ElfSectionType::RelaRelocation,
        5 => ElfSectionType::SymbolHashTable,
        6 => ElfSectionType::DynamicLinkingTable,
        7 => ElfSectionType::Note,
        8 => ElfSectionType::Uninitialized,
        9 => ElfSectionType::RelRelocation,
        10 => ElfSectionType::Reserved,
        11 => ElfSectionType::DynamicLoaderSymbolTable,
        0x6000_0000..=0x6FFF_FFFF => ElfSectionType::EnvironmentSpecific,
        0x7000_0000..=0x7FFF_FFFF => ElfSectionType::ProcessorSpecific,
        _ => return None, // unused / unknown: skipped by the iterator
    })
}

fn elf_law(buf: &mut Aligned<88>, entsize: u32, v: u32) -> Result<u64, String> {
    wr32(&mut buf.0, 20 + 4, v);
    wr32(&mut buf.0, 12, entsize);
    wr32(&mut buf.0, 4, 20 + entsize);
    let tag = DynSizedStructure::<TagHeader>::ref_from_slice(&buf.0[..round8(20 + entsize as usize)]).map_err(|e| format!("{:?}", e))?;
    let tag = tag.cast::<ElfSectionsTag>();
    let got = tag.sections().next().map(|s| (s.section_type(), s.section_type_raw()));
    match (got, expected_elf(v)) {
        (None, None) => Ok(0),
        (Some((t, raw)), Some(e)) if t == e && raw == v => Ok(t as u64),
        (g, e) => Err(format!("raw ELF section type {:#x} (entry size {}): iterator gives {:?}, documented classification {:?}", v, entsize, g, e)),
    }
}

fn run(ctx: &mut Ctx) {
    let full = !ctx.dev_profile() && !ctx.quick();
    ctx.bound("conversions", if full { "all 2^32 values: TagType/TagTypeId/MemoryAreaType/MemoryAreaTypeId round trips, named variants, commuting conversions, 12 equality directions against {v, v+1}" } else { "lattice h<<16|l (h all 65536 values, l in 0..=31 and 0xFFE0..=0xFFFF) in the quick tier and in the dev profile; all 2^32 values in the thorough release run" });
    sweep_u32(ctx, "conversion laws", "c20/conversions", full, 24, conv_law);
    ctx.bound("equality", "lattice h<<16|l (2 097 152 values): 12 equality directions of v against v with each single bit flipped and against 0..=22 in both orders");
    sweep_u32(ctx, "equality laws", "c20/equality", false, 12 * (32 + 46), eq_lattice_law);
    let elf_full = full;
    ctx.bound("elf", if elf_full { "all 2^32 raw ELF section types, both entry layouts (40, 64), one-entry tag re-loaded per value" } else { "lattice h<<16|l of raw ELF section types (covers 0..=15, every range boundary 0x5FFFFFFF/0x60000000/0x6FFFFFFF/0x70000000/0x7FFFFFFF/0x80000000), both entry layouts; all 2^32 in the thorough release run" });
    for entsize in [64u32, 40] {
        let cell = std::cell::RefCell::new(Aligned::<88>([0u8; 88]));
        {
            let mut b = cell.borrow_mut();
            wr32(&mut b.0, 0, 9);
            wr32(&mut b.0, 8, 1);
            wr32(&mut b.0, 16, 0);
            for i in 20..84 {
                b.0[i] = marker(i, 3);
            }
        }
        sweep_u32(ctx, if entsize == 64 { "ELF64 section type classification" } else { "ELF32 section type classification" }, "c20/elf-classification", elf_full, 3, |v| {
            elf_law(&mut cell.borrow_mut(), entsize, v)
        });
    }
    // framebuffer type bytes
    ctx.bound("framebuffer", "all 256 framebuffer type bytes on a 38-byte framebuffer tag");
    for b in 0..=255u8 {
        ctx.leaf(
            || J::obj().set("framebuffer_type_byte", b),
            |ctx| {
                let mut buf = Aligned::<40>([0u8; 40]);
                wr32(&mut buf.0, 0, 8);
                wr32(&mut buf.0, 4, 38);
                for i in 8..38 {
                    buf.0[i] = marker(i, 5);
                }
                buf.0[29] = b;
                wr16(&mut buf.0, 32, 1);
                let r = ctx.call("FramebufferTag::buffer_type", || {
                    let tag = DynSizedStructure::<TagHeader>::ref_from_slice(&buf.0[..]).unwrap().cast::<FramebufferTag>();
                    match tag.buffer_type() {
                        Ok(FramebufferType::Indexed { palette }) => (0u32, palette.len() as u32, String::new()),
                        Ok(FramebufferType::RGB { .. }) => (1, 0, String::new()),
                        Ok(FramebufferType::Text) => (2, 0, String::new()),
                        Err(e) => (3, 0, format!("{}", e)),
                    }
                });
                ctx.state_direct();
                ctx.nontrivial();
                match r {
                    Out::Panic => ctx.violation("c20/framebuffer-type/panic", || format!("buffer_type panicked for type byte {}", b)),
                    Out::Val((class, n, text)) => {
                        ctx.ob("fbtype.class", class as u64);
                        let want = if b <= 2 { b as u32 } else { 3 };
                        if class != want {
                            ctx.violation(&format!("c20/framebuffer-type/{}", if b <= 2 { "known" } else { "unknown-reported-as-known" }), || {
                                format!("framebuffer type byte {} classified as {} ({}), documented: 0 indexed, 1 RGB, 2 text, everything else unknown", b, class, ["Indexed", "RGB", "Text", "error"][class as usize])
                            });
                        } else if class == 3 && !text.contains(&format!("{}", b)) {
                            ctx.violation("c20/framebuffer-type/error-value", || format!("unknown type byte {} reported as {:?}", b, text));
                        } else if class == 0 && n != 1 {
                            ctx.violation("c20/framebuffer-type/palette", || format!("palette of {} colours, stored 1", n));
                        } else {
                            ctx.class(if class == 3 { "fbtype:unknown" } else { "fbtype:known" });
                        }
                    }
                }
            },
        );
    }
    // MAGIC constants
    ctx.leaf(
        || J::obj().set("constants", "MAGIC"),
        |ctx| {
            ctx.call("MAGIC", || ());
            ctx.state_direct();
            ctx.nontrivial();
            if multiboot2::MAGIC != 0x36D7_6289 {
                ctx.violation("c20/magic/boot-information", || format!("multiboot2::MAGIC = {:#x}", multiboot2::MAGIC));
            }
            if multiboot2_header::MAGIC != 0xE852_50D6 {
                ctx.violation("c20/magic/header", || format!("multiboot2_header::MAGIC = {:#x}", multiboot2_header::MAGIC));
            }
            ctx.class("magic");
        },
    );
}

fn main() {
    main_wrap("C20", run);
}
