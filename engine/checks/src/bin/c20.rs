//! C20 - type-identifier conversions are lossless and consistent for all
//! 2^32 values; ELF / framebuffer classification is total; MAGIC constants.
use mbvlib::spec::*;
use mbvlib::*;
use multiboot2::{
    DynSizedStructure, ElfSectionType, ElfSectionsTag, FramebufferTag, FramebufferType, MemoryAreaType,
    MemoryAreaTypeId, TagHeader, TagType, TagTypeId,
};

/// Reference table: the specified numbers of the named variants.
const NAMED: [TagType; 22] = [
    TagType::End,
    TagType::Cmdline,
    TagType::BootLoaderName,
    TagType::Module,
    TagType::BasicMeminfo,
    TagType::Bootdev,
    TagType::Mmap,
    TagType::Vbe,
    TagType::Framebuffer,
    TagType::ElfSections,
    TagType::Apm,
    TagType::Efi32,
    TagType::Efi64,
    TagType::Smbios,
    TagType::AcpiV1,
    TagType::AcpiV2,
    TagType::Network,
    TagType::EfiMmap,
    TagType::EfiBs,
    TagType::Efi32Ih,
    TagType::Efi64Ih,
    TagType::LoadBaseAddr,
];

fn expected_tag_type(v: u32) -> TagType {
    if (v as usize) < NAMED.len() {
        NAMED[v as usize]
    } else {
        TagType::Custom(v)
    }
}

fn expected_area_type(v: u32) -> MemoryAreaType {
    match v {
        1 => MemoryAreaType::Available,
        2 => MemoryAreaType::Reserved,
        3 => MemoryAreaType::AcpiAvailable,
        4 => MemoryAreaType::ReservedHibernate,
        5 => MemoryAreaType::Defective,
        v => MemoryAreaType::Custom(v),
    }
}

/// All eight equality directions between raw numbers, ids and symbolic types
/// must agree with numeric equality of `v` and `w`.
fn eq_law(v: u32, w: u32) -> Result<(), String> {
    let want = v == w;
    let (tv, tw) = (TagType::from(v), TagType::from(w));
    let (iv, iw) = (TagTypeId::from(v), TagTypeId::from(w));
    let got = [
        tv == iw,
        iv == tw,
        iv == w,
        v == iw,
        tv == w,
        v == tw,
        iv == iw,
        tv == tw,
    ];
    for (k, g) in got.iter().enumerate() {
        if *g != want {
            return Err(format!("equality direction #{} of ({:#x}, {:#x}) says {} but the numbers are {}", k, v, w, g, if want { "equal" } else { "different" }));
        }
    }
    let (av, aw) = (MemoryAreaType::from(MemoryAreaTypeId::from(v)), MemoryAreaType::from(MemoryAreaTypeId::from(w)));
    let (bv, bw) = (MemoryAreaTypeId::from(v), MemoryAreaTypeId::from(w));
    let got = [av == bw, bv == aw, bv == bw, av == aw];
    for (k, g) in got.iter().enumerate() {
        if *g != want {
            return Err(format!("memory-area equality direction #{} of ({:#x}, {:#x}) says {}", k, v, w, g));
        }
    }
    Ok(())
}

fn conv_law(v: u32) -> Result<u64, String> {
    let t = TagType::from(v);
    if t != expected_tag_type(v) {
        return Err(format!("TagType::from = {:?}, specified {:?}", t, expected_tag_type(v)));
    }
    if u32::from(t) != v || t.val() != v {
        return Err(format!("TagType round trip gives {:#x} / val() {:#x}", u32::from(t), t.val()));
    }
    let id = TagTypeId::from(v);
    if u32::from(id) != v || u32::from(TagTypeId::new(v)) != v {
        return Err("TagTypeId round trip".into());
    }
    if TagType::from(id) != t {
        return Err(format!("TagType::from(TagTypeId) = {:?} but TagType::from(u32) = {:?}", TagType::from(id), t));
    }
    if u32::from(TagTypeId::from(t)) != v {
        return Err(format!("TagTypeId::from(TagType) = {:#x}", u32::from(TagTypeId::from(t))));
    }
    if u32::from(TagTypeId::from(expected_tag_type(v))) != v || u32::from(expected_tag_type(v)) != v {
        return Err(format!("the specified variant {:?} converts to {:#x}", expected_tag_type(v), u32::from(expected_tag_type(v))));
    }
    // memory area types
    let mid = MemoryAreaTypeId::from(v);
    if u32::from(mid) != v {
        return Err("MemoryAreaTypeId round trip".into());
    }
    let mt = MemoryAreaType::from(mid);
    if mt != expected_area_type(v) {
        return Err(format!("MemoryAreaType::from = {:?}, specified {:?}", mt, expected_area_type(v)));
    }
    if u32::from(MemoryAreaTypeId::from(mt)) != v || u32::from(MemoryAreaTypeId::from(expected_area_type(v))) != v {
        return Err(format!("MemoryAreaType round trip gives {:#x}", u32::from(MemoryAreaTypeId::from(mt))));
    }
    // a hand-made Custom(v) - also for the specified numbers - converts back to v and compares equal to v
    let c = TagType::Custom(v);
    if u32::from(c) != v || c.val() != v || u32::from(TagTypeId::from(c)) != v {
        return Err(format!("TagType::Custom({:#x}) converts to {:#x}", v, u32::from(c)));
    }
    if !(c == v && v == c && c == id && id == c) || c == v.wrapping_add(1) || v.wrapping_add(1) == c {
        return Err(format!("TagType::Custom({:#x}) does not compare like the number", v));
    }
    let mc = MemoryAreaType::Custom(v);
    if u32::from(MemoryAreaTypeId::from(mc)) != v || !(mc == mid && mid == mc) {
        return Err(format!("MemoryAreaType::Custom({:#x}) does not convert / compare like the number", v));
    }
    eq_law(v, v)?;
    eq_law(v, v.wrapping_add(1))?;
    Ok(v as u64)
}

fn eq_lattice_law(v: u32) -> Result<u64, String> {
    for b in 0..32 {
        eq_law(v, v ^ (1 << b))?;
    }
    for w in 0..=22u32 {
        eq_law(v, w)?;
        eq_law(w, v)?;
    }
    Ok(v as u64)
}

#[repr(C, align(8))]
struct Aligned<const N: usize>([u8; N]);

fn expected_elf(v: u32) -> Option<ElfSectionType> {
    Some(match v {
        1 => ElfSectionType::ProgramSection,
        2 => ElfSectionType::LinkerSymbolTable,
        3 => ElfSectionType::StringTable,
        4 => ElfSectionType::RelaRelocation,
        5 => ElfSectionType::SymbolHashTable,
        6 => ElfSectionType::DynamicLinkingTable,
        7 => ElfSectionType::Note,
        8 => ElfSectionType::Uninitialized,
        9 => ElfSectionType::RelRelocation,
        10 => ElfSectionType::Reserved,
        11 => ElfSectionType::DynamicLoaderSymbolTable,
        0x6000_0000..=0x6FFF_FFFF => ElfSectionType::EnvironmentSpecific,
        0x7000_0000..=0x7FFF_FFFF => ElfSectionType::ProcessorSpecific,
        _ => return None, // unused / unknown: skipped by the iterator
    })
}

fn elf_law(buf: &mut Aligned<88>, entsize: u32, v: u32) -> Result<u64, String> {
    wr32(&mut buf.0, 20 + 4, v);
    wr32(&mut buf.0, 12, entsize);
    wr32(&mut buf.0, 4, 20 + entsize);
    let tag = DynSizedStructure::<TagHeader>::ref_from_slice(&buf.0[..round8(20 + entsize as usize)]).map_err(|e| format!("{:?}", e))?;
    let tag = tag.cast::<ElfSectionsTag>();
    let got = tag.sections().next().map(|s| (s.section_type(), s.section_type_raw()));
    match (got, expected_elf(v)) {
        (None, None) => Ok(0),
        (Some((t, raw)), Some(e)) if t == e && raw == v => Ok(t as u64),
        (g, e) => Err(format!("raw ELF section type {:#x} (entry size {}): iterator gives {:?}, documented classification {:?}", v, entsize, g, e)),
    }
}

fn run(ctx: &mut Ctx) {
    let full = !ctx.dev_profile() && !ctx.quick();
    ctx.bound("conversions", if full { "all 2^32 values: TagType/TagTypeId/MemoryAreaType/MemoryAreaTypeId round trips, named variants, commuting conversions, 12 equality directions against {v, v+1}" } else { "lattice h<<16|l (h all 65536 values, l in 0..=31 and 0xFFE0..=0xFFFF) in the quick tier and in the dev profile; all 2^32 values in the thorough release run" });
    sweep_u32(ctx, "conversion laws", "c20/conversions", full, 24, conv_law);
    ctx.bound("equality", "lattice h<<16|l (2 097 152 values): 12 equality directions of v against v with each single bit flipped and against 0..=22 in both orders");
    sweep_u32(ctx, "equality laws", "c20/equality", false, 12 * (32 + 46), eq_lattice_law);
    let elf_full = full;
    ctx.bound("elf", if elf_full { "all 2^32 raw ELF section types, both entry layouts (40, 64), one-entry tag re-loaded per value" } else { "lattice h<<16|l of raw ELF section types (covers 0..=15, every range boundary 0x5FFFFFFF/0x60000000/0x6FFFFFFF/0x70000000/0x7FFFFFFF/0x80000000), both entry layouts; all 2^32 in the thorough release run" });
    for entsize in [64u32, 40] {
        let cell = std::cell::RefCell::new(Aligned::<88>([0u8; 88]));
        {
            let mut b = cell.borrow_mut();
            wr32(&mut b.0, 0, 9);
            wr32(&mut b.0, 8, 1);
            wr32(&mut b.0, 16, 0);
            for i in 20..84 {
                b.0[i] = marker(i, 3);
            }
        }
        sweep_u32(ctx, if entsize == 64 { "ELF64 section type classification" } else { "ELF32 section type classification" }, "c20/elf-classification", elf_full, 3, |v| {
            elf_law(&mut cell.borrow_mut(), entsize, v)
        });
    }
    // framebuffer type bytes
    ctx.bound("framebuffer", "all 256 framebuffer type bytes on a 38-byte framebuffer tag");
    for b in 0..=255u8 {
        ctx.leaf(
            || J::obj().set("framebuffer_type_byte", b),
            |ctx| {
                let mut buf = Aligned::<40>([0u8; 40]);
                wr32(&mut buf.0, 0, 8);
                wr32(&mut buf.0, 4, 38);
                for i in 8..38 {
                    buf.0[i] = marker(i, 5);
                }
                buf.0[29] = b;
                wr16(&mut buf.0, 32, 1);
                let r = ctx.call("FramebufferTag::buffer_type", || {
                    let tag = DynSizedStructure::<TagHeader>::ref_from_slice(&buf.0[..]).unwrap().cast::<FramebufferTag>();
                    match tag.buffer_type() {
                        Ok(FramebufferType::Indexed { palette }) => (0u32, palette.len() as u32, String::new()),
                        Ok(FramebufferType::RGB { .. }) => (1, 0, String::new()),
                        Ok(FramebufferType::Text) => (2, 0, String::new()),
                        Err(e) => (3, 0, format!("{}", e)),
                    }
                });
                ctx.state_direct();
                ctx.nontrivial();
                match r {
                    Out::Panic => ctx.violation("c20/framebuffer-type/panic", || format!("buffer_type panicked for type byte {}", b)),
                    Out::Val((class, n, text)) => {
                        ctx.ob("fbtype.class", class as u64);
                        let want = if b <= 2 { b as u32 } else { 3 };
                        if class != want {
                            ctx.violation(&format!("c20/framebuffer-type/{}", if b <= 2 { "known" } else { "unknown-reported-as-known" }), || {
                                format!("framebuffer type byte {} classified as {} ({}), documented: 0 indexed, 1 RGB, 2 text, everything else unknown", b, class, ["Indexed", "RGB", "Text", "error"][class as usize])
                            });
                        } else if class == 3 && !text.contains(&format!("{}", b)) {
                            ctx.violation("c20/framebuffer-type/error-value", || format!("unknown type byte {} reported as {:?}", b, text));
                        } else if class == 0 && n != 1 {
                            ctx.violation("c20/framebuffer-type/palette", || format!("palette of {} colours, stored 1", n));
                        } else {
                            ctx.class(if class == 3 { "fbtype:unknown" } else { "fbtype:known" });
                        }
                    }
                }
            },
        );
    }
    // classification does not depend on how much the tag holds: indexed framebuffers with palettes on both sides of the
    // 16-bit byte-count boundary, and an ELF table of more than 2^16 headers
    ctx.bound("large_structures", "indexed framebuffer tags holding exactly 1, 255, 256, 21845, 21846, 43690, 43691 and 65535 colours classify as indexed with that many colours; an ELF table of 65600 headers (40- and 64-byte layouts) whose types cycle through 24 raw values: header i is yielded with the class of its own type");
    for colours in [1usize, 255, 256, 21845, 21846, 43690, 43691, 65535] {
        ctx.leaf(
            || J::obj().set("large_palette_colours", colours),
            |ctx| {
                ctx.state_direct();
                ctx.nontrivial();
                let size = 34 + 3 * colours;
                let mut buf = vec![0u64; round8(size) / 8];
                let bytes: &mut [u8] = unsafe { std::slice::from_raw_parts_mut(buf.as_mut_ptr() as *mut u8, round8(size)) };
                for (i, b) in bytes.iter_mut().enumerate().skip(8) {
                    *b = marker(i, 5);
                }
                wr32(bytes, 0, 8);
                wr32(bytes, 4, size as u32);
                bytes[29] = 0;
                wr16(bytes, 32, colours as u16);
                let r = ctx.call("FramebufferTag::buffer_type (large palette)", || {
                    let tag = DynSizedStructure::<TagHeader>::ref_from_slice(&bytes[..]).unwrap().cast::<FramebufferTag>();
                    match tag.buffer_type() {
                        Ok(FramebufferType::Indexed { palette }) => Some(palette.len()),
                        _ => None,
                    }
                });
                match r {
                    Out::Val(Some(n)) if n == colours => ctx.class("fbtype:large-indexed"),
                    other => ctx.violation("c20/framebuffer-type/large-palette", || format!("indexed framebuffer tag holding exactly {} colours: classified as {:?} (Some(n) = indexed with n colours)", colours, other.val())),
                }
            },
        );
    }
    for entsize in [40usize, 64] {
        ctx.leaf(
            || J::obj().set("large_elf_table_entry_size", entsize),
            |ctx| {
                ctx.state_direct();
                ctx.nontrivial();
                const N: usize = 65600;
                const CYC: [u32; 24] = [1, 2, 3, 4, 5, 6, 7, 8, 9, 10, 11, 0, 12, 16, 0x5FFF_FFFF, 0x6000_0000, 0x6FFF_FFFF, 0x7000_0000, 0x7FFF_FFFF, 0x8000_0000, 7, 1, 8, 3];
                let size = 20 + N * entsize;
                let mut buf = vec![0u64; round8(size) / 8];
                let bytes: &mut [u8] = unsafe { std::slice::from_raw_parts_mut(buf.as_mut_ptr() as *mut u8, round8(size)) };
                wr32(bytes, 0, 9);
                wr32(bytes, 4, size as u32);
                wr32(bytes, 8, N as u32);
                wr32(bytes, 12, entsize as u32);
                wr32(bytes, 16, 2);
                for i in 0..N {
                    // type at +4; the address field carries the index (ELF32: +12, ELF64: +16)
                    wr32(bytes, 20 + i * entsize + 4, CYC[i % 24]);
                    wr32(bytes, 20 + i * entsize + if entsize == 40 { 12 } else { 16 }, i as u32);
                }
                let r = ctx.call("sections (large table)", || {
                    let tag = DynSizedStructure::<TagHeader>::ref_from_slice(&bytes[..]).unwrap().cast::<ElfSectionsTag>();
                    let mut bad: Option<String> = None;
                    let mut n = 0usize;
                    let mut want = (0..N).filter(|i| expected_elf(CYC[i % 24]).is_some());
                    for s in tag.sections() {
                        n += 1;
                        let Some(i) = want.next() else {
                            bad = bad.or(Some("more sections than in-use headers".into()));
                            break;
                        };
                        if (s.start_address() as usize != i || s.section_type_raw() != CYC[i % 24] || Some(s.section_type()) != expected_elf(CYC[i % 24])) && bad.is_none() {
                            bad = Some(format!("expected header #{} (raw type {:#x}), got the header with address field {} raw type {:#x} class {:?}", i, CYC[i % 24], s.start_address(), s.section_type_raw(), s.section_type()));
                        }
                    }
                    if want.next().is_some() && bad.is_none() {
                        bad = Some(format!("only {} sections yielded", n));
                    }
                    bad
                });
                match r {
                    Out::Val(None) => ctx.class("elf-table:large"),
                    Out::Val(Some(msg)) => ctx.violation("c20/elf-tables/large", || format!("table of 65600 headers of {} bytes: {}", entsize, msg)),
                    Out::Panic => ctx.violation("c20/elf-tables/panic", || "sections() panicked on a table of 65600 headers".into()),
                }
            },
        );
    }
    // framebuffer type bytes through the boot information's getter: one tag, and two tags of which the first decides
    ctx.bound("framebuffer_getter", "all 256 type bytes on the only / on the first of two framebuffer tags (the second one indexed, RGB or text) through BootInformation::framebuffer_tag(): bytes 0..=2 give the known type of that tag, every other byte an error carrying the byte");
    {
        let garena = Arena::new(2);
        for b in 0..=255u8 {
            for second in 0..4u8 {
                ctx.leaf(
                    || J::obj().set("framebuffer_type_byte", b).set("second_framebuffer_tag", ["none", "indexed", "RGB", "text"][second as usize]),
                    |ctx| {
                        let mut first = bi::enc_framebuffer(0xFD00_0000, 4096, 1024, 768, 32, 1, &[16, 8, 8, 8, 0, 8]);
                        first[29] = b;
                        let mut tags = vec![first];
                        match second {
                            1 => tags.push(bi::enc_framebuffer(0xA_0000, 320, 320, 200, 8, 0, &bi::enc_palette(&[(1, 2, 3)]))),
                            2 => tags.push(bi::enc_framebuffer(0xE000_0000, 3200, 800, 600, 32, 1, &[16, 8, 8, 8, 0, 8])),
                            3 => tags.push(bi::enc_framebuffer(0xB_8000, 160, 80, 25, 16, 2, &[])),
                            _ => {}
                        }
                        tags.push(bi::end_tag());
                        let region = bi::region(&tags, &bi::zero_pad);
                        garena.fill(arena::FILL_A);
                        let p = garena.place_right(&region);
                        ctx.state_direct();
                        ctx.nontrivial();
                        let r = ctx.call("framebuffer_tag", || {
                            let bi_ = unsafe { multiboot2::BootInformation::load(p as *const multiboot2::BootInformationHeader) }.unwrap();
                            match bi_.framebuffer_tag() {
                                None => (9u32, 0usize, String::new()),
                                Some(Err(e)) => (3, 0, format!("{}", e)),
                                Some(Ok(t)) => {
                                    let off = t as *const FramebufferTag as *const u8 as usize - p as usize;
                                    match t.buffer_type() {
                                        Ok(FramebufferType::Indexed { .. }) => (0, off, String::new()),
                                        Ok(FramebufferType::RGB { .. }) => (1, off, String::new()),
                                        Ok(FramebufferType::Text) => (2, off, String::new()),
                                        Err(e) => (4, off, format!("{}", e)),
                                    }
                                }
                            }
                        });
                        match r {
                            // an indexed first tag whose stored colour count does not fit may be refused
                            Out::Panic if b == 0 => ctx.class("fbgetter:refused"),
                            Out::Panic => ctx.violation("c20/framebuffer-getter/panic", || format!("framebuffer_tag() / buffer_type() panicked for type byte {}", b)),
                            Out::Val((class, off, text)) => {
                                ctx.ob("fbgetter.class", class as u64);
                                let ok = if b <= 2 { class == b as u32 && off == 8 } else { class == 3 && text.contains(&format!("{}", b)) };
                                if !ok {
                                    ctx.violation(&format!("c20/framebuffer-getter/{}", if b <= 2 { "known" } else { "unknown-reported-as-known" }), || format!("first framebuffer tag has type byte {}: the getter reports class {} ({}) at offset {} {:?}", b, class, ["Indexed", "RGB", "Text", "error from the getter", "error from buffer_type", "", "", "", "", "nothing"][class as usize], off, text));
                                } else {
                                    ctx.class(if class == 3 { "fbgetter:unknown" } else { "fbgetter:known" });
                                }
                            }
                        }
                    },
                );
            }
        }
    }
    // ELF tables of three headers: classification does not depend on which other types the table holds
    const ELF_DICT: [u32; 24] = [0, 1, 2, 3, 4, 5, 6, 7, 8, 9, 10, 11, 12, 14, 15, 16, 18, 0x5FFF_FFFF, 0x6000_0000, 0x6FFF_FFF6, 0x6FFF_FFFF, 0x7000_0000, 0x7FFF_FFFF, 0x8000_0000];
    ctx.bound("elf_tables", "tables [x][string table][y] and [x][y][y] for every pair x, y of 24 raw types (0..=12, 14..=16, 18 and the boundaries of the environment- and processor-specific ranges), both entry layouts: the iterator yields exactly the headers with a documented in-use classification, each with its own class and raw type, through next() as well as through fold, for_each, count and last");
    for entsize in [64usize, 40] {
        for &x in ELF_DICT.iter() {
            for &y in ELF_DICT.iter() {
                for shape in 0..2 {
                    let types = if shape == 0 { [x, 3, y] } else { [x, y, y] };
                    ctx.leaf(
                        || J::obj().set("elf_table_types", J::Arr(types.iter().map(|t| J::from(*t)).collect())).set("entry_size", entsize),
                        |ctx| {
                            ctx.state_direct();
                            ctx.nontrivial();
                            let mut buf = Aligned::<216>([0u8; 216]);
                            let size = 20 + 3 * entsize;
                            for i in 20..size {
                                buf.0[i] = marker(i, 3);
                            }
                            wr32(&mut buf.0, 0, 9);
                            wr32(&mut buf.0, 4, size as u32);
                            wr32(&mut buf.0, 8, 3);
                            wr32(&mut buf.0, 12, entsize as u32);
                            wr32(&mut buf.0, 16, 1);
                            for (k, t) in types.iter().enumerate() {
                                wr32(&mut buf.0, 20 + k * entsize + 4, *t);
                            }
                            let r = ctx.call("sections", || {
                                let tag = DynSizedStructure::<TagHeader>::ref_from_slice(&buf.0[..round8(size)]).unwrap().cast::<ElfSectionsTag>();
                                let by_next = tag.sections().map(|s| (s.section_type(), s.section_type_raw())).collect::<Vec<_>>();
                                // internal iteration (fold-based adapters an iterator type may specialise) classifies alike
                                let by_fold = tag.sections().fold(vec![], |mut v, s| {
                                    v.push((s.section_type(), s.section_type_raw()));
                                    v
                                });
                                let mut by_for_each = vec![];
                                tag.sections().for_each(|s| by_for_each.push((s.section_type(), s.section_type_raw())));
                                let last = tag.sections().last().map(|s| (s.section_type(), s.section_type_raw()));
                                if by_fold != by_next || by_for_each != by_next || tag.sections().count() != by_next.len() || last != by_next.last().copied() {
                                    let mut odd = by_fold;
                                    odd.push((ElfSectionType::Unused, 0xFFFF_FFFF));
                                    odd
                                } else {
                                    by_next
                                }
                            });
                            let want: Vec<(ElfSectionType, u32)> = types.iter().filter_map(|t| expected_elf(*t).map(|e| (e, *t))).collect();
                            match r {
                                Out::Panic => ctx.violation("c20/elf-tables/panic", || format!("sections() panicked on a table of types {:x?}", types)),
                                Out::Val(got) => {
                                    ctx.ob("elf.table.n", got.len() as u64);
                                    if got != want {
                                        ctx.violation("c20/elf-tables/classification", || format!("table of raw types {:x?} (entry size {}): iterator gives {:x?}, documented {:x?}", types, entsize, got, want));
                                    } else {
                                        ctx.class("elf-table:classified");
                                    }
                                }
                            }
                        },
                    );
                }
            }
        }
    }
    // classification depends on the type word alone: the other fields of the header (flags, address, size, alignment)
    // over values that are "inconsistent" with one another
    ctx.bound("elf_other_fields", "one-header tables, both layouts, raw type over the 24-value dictionary x flags {0, 2, 7} x address {0, 0x1008, 0x100004, 0x1FF0, all-ones} x size {0, 0x10} x alignment {0, 1, 8, 16, 0x1000, 3}: class and raw type as documented for the type word");
    for entsize in [64usize, 40] {
        for &x in ELF_DICT.iter() {
            for flags in [0u64, 2, 7] {
                for addr in [0u64, 0x1008, 0x10_0004, 0x1FF0, u64::MAX] {
                    for size in [0u64, 0x10] {
                        for align in [0u64, 1, 8, 16, 0x1000, 3] {
                            ctx.leaf(
                                || J::obj().set("elf_other_fields", entsize).set("type", x).set("flags", flags).set("addr", format!("{:#x}", addr)).set("size", size).set("addralign", align),
                                |ctx| {
                                    ctx.state_direct();
                                    ctx.nontrivial();
                                    let e = if entsize == 40 { bi::enc_shdr32(0, x, flags as u32, addr as u32, 0, size as u32, 0, 0, align as u32, 0) } else { bi::enc_shdr64(0, x, flags, addr, 0, size, 0, 0, align, 0) };
                                    let img = bi::enc_elf(1, entsize as u32, 0, &e);
                                    let mut buf = Aligned::<88>([0u8; 88]);
                                    buf.0[..img.len()].copy_from_slice(&img);
                                    let r = ctx.call("sections", || {
                                        let tag = DynSizedStructure::<TagHeader>::ref_from_slice(&buf.0[..round8(img.len())]).unwrap().cast::<ElfSectionsTag>();
                                        tag.sections().map(|s| (s.section_type(), s.section_type_raw())).collect::<Vec<_>>()
                                    });
                                    let want: Vec<(ElfSectionType, u32)> = expected_elf(x).map(|e| (e, x)).into_iter().collect();
                                    match r {
                                        Out::Val(got) if got == want => ctx.class("elf-table:classified"),
                                        Out::Val(got) => ctx.violation("c20/elf-tables/other-fields", || format!("raw type {:#x} with flags {:#x} address {:#x} size {:#x} alignment {:#x} (entry size {}): iterator gives {:x?}, documented {:x?}", x, flags, addr, size, align, entsize, got, want)),
                                        Out::Panic => ctx.violation("c20/elf-tables/panic", || format!("sections() panicked for raw type {:#x}", x)),
                                    }
                                },
                            );
                        }
                    }
                }
            }
        }
    }
    // MAGIC constants
    ctx.leaf(
        || J::obj().set("constants", "MAGIC"),
        |ctx| {
            ctx.call("MAGIC", || ());
            ctx.state_direct();
            ctx.nontrivial();
            if multiboot2::MAGIC != 0x36D7_6289 {
                ctx.violation("c20/magic/boot-information", || format!("multiboot2::MAGIC = {:#x}", multiboot2::MAGIC));
            }
            if multiboot2_header::MAGIC != 0xE852_50D6 {
                ctx.violation("c20/magic/header", || format!("multiboot2_header::MAGIC = {:#x}", multiboot2_header::MAGIC));
            }
            ctx.class("magic");
        },
    );
}

fn main() {
    main_wrap("C20", run);
}
