//! C07 - every tag constructor emits the spec-exact binary image.
use mbvlib::battery::{self, Bat};
use mbvlib::hbattery;
use mbvlib::spec::{bi, decode, hd, Rec, Val};
use mbvlib::spec::*;
use mbvlib::*;
use multiboot2::*;
use multiboot2_common::{MaybeDynSized, Tag};
use multiboot2_header as mh;

// exact-alignment, poisoning allocator (engine/checks/src/lib.rs)
#[global_allocator]
static A: ledger::Counting = ledger::Counting;

const PERT: [u8; 10] = [0x00, 0x01, 0x02, 0x04, 0x08, 0x10, 0x20, 0x40, 0x80, 0xFF];

/// Argument tuples for scalar arguments of the given byte widths: a marker
/// tuple, boundary values per argument, every single-byte perturbation.
fn tuples(widths: &[usize]) -> Vec<Vec<u64>> {
    let base: Vec<u64> = widths
        .iter()
        .enumerate()
        .map(|(i, &w)| {
            let mut v = 0u64;
            for j in 0..w {
                v |= (marker(i * 8 + j, 31) as u64) << (8 * j);
            }
            v
        })
        .collect();
    let mut out = vec![base.clone()];
    // sparse tuples: every argument 0 (resp. all-ones) except none, one or two that keep their marker value
    let n = widths.len();
    for fill_max in [false, true] {
        let filled: Vec<u64> = widths.iter().map(|&w| if !fill_max { 0 } else if w == 8 { u64::MAX } else { (1u64 << (8 * w)) - 1 }).collect();
        for a in 0..=n {
            for b2 in a..=n {
                let mut t = filled.clone();
                if a < n {
                    t[a] = base[a];
                }
                if b2 < n {
                    t[b2] = base[b2];
                }
                if !out.contains(&t) {
                    out.push(t);
                }
            }
        }
    }
    for (i, &w) in widths.iter().enumerate() {
        let max = if w == 8 { u64::MAX } else { (1u64 << (8 * w)) - 1 };
        for v in [0, 1, max, max - 1, 1u64 << (8 * w - 1)] {
            let mut t = base.clone();
            t[i] = v;
            out.push(t);
        }
        // two arguments of the same width holding the same value (the marker of the first one, and 1 MiB)
        for (j, &w2) in widths.iter().enumerate().skip(i + 1) {
            if w2 == w {
                for v in [base[i], 0x10_0000u64 & max] {
                    let mut t = base.clone();
                    t[i] = v;
                    t[j] = v;
                    if !out.contains(&t) {
                        out.push(t);
                    }
                }
            }
        }
        // values that mean something: BCD version numbers, the EDGE32 boundaries, well-known addresses
        let mut dict: Vec<u64> = vec![0x0100, 0x0101, 0x0102, 0x0200, 0x0300, 0xB8000, 0xA0000, 0x10_0000, 0x80];
        dict.extend(EDGE32.iter().map(|&e| e as u64));
        for v in dict {
            if v <= max {
                let mut t = base.clone();
                t[i] = v;
                if !out.contains(&t) {
                    out.push(t);
                }
            }
        }
        for j in 0..w {
            for &p in &PERT {
                let mut t = base.clone();
                t[i] = (t[i] & !(0xFFu64 << (8 * j))) | ((p as u64) << (8 * j));
                if t != base {
                    out.push(t);
                }
            }
        }
    }
    out
}

struct Built {
    id: u32,
    typ: u32,
    size: u32,
    bytes: Vec<u8>,
    recs: Vec<Rec>,
}

fn built_bi<T: MaybeDynSized<Header = TagHeader> + Tag<IDType = TagType> + ?Sized>(ctx: &mut Ctx, t: &T, f: &dyn Fn(&mut Bat, &T)) -> Built {
    let bytes = t.as_bytes().to_vec();
    let mut b = Bat::new(ctx, t as *const T as *const u8);
    b.debug = false;
    f(&mut b, t);
    Built { id: u32::from(T::ID), typ: u32::from(t.header().typ), size: t.header().size, bytes, recs: b.recs }
}
fn built_hd<T: MaybeDynSized<Header = mh::HeaderTagHeader> + Tag<IDType = mh::HeaderTagType> + ?Sized>(ctx: &mut Ctx, t: &T, f: &dyn Fn(&mut Bat, &T)) -> Built {
    let bytes = t.as_bytes().to_vec();
    let mut b = Bat::new(ctx, t as *const T as *const u8);
    b.debug = false;
    f(&mut b, t);
    Built { id: T::ID as u16 as u32, typ: t.header().typ() as u16 as u32, size: t.header().size(), bytes, recs: b.recs }
}

fn judge(ctx: &mut Ctx, ctor: &'static str, args: &str, got: Out<Built>, want: &[u8], expected_recs: Vec<Rec>, header_crate: bool) {
    let Out::Val(g) = got else {
        ctx.violation(&format!("c07/{}/panic", ctor), || format!("{}({}) panicked", ctor, args));
        return;
    };
    let want_typ = if header_crate { rd16(want, 0) as u32 } else { rd32(want, 0) };
    ctx.ob("size", g.size as u64);
    ctx.tx.bytes(&g.bytes[..(g.size as usize).min(g.bytes.len())]);
    if g.id != want_typ {
        ctx.violation(&format!("c07/{}/id-constant", ctor), || format!("{}: the declared ID constant is {} but the specification numbers this kind {}", ctor, g.id, want_typ));
    }
    if g.typ != want_typ {
        ctx.violation(&format!("c07/{}/type-field", ctor), || format!("{}({}): type field {} but the specified number is {}", ctor, args, g.typ, want_typ));
    }
    if g.size as usize != want.len() {
        ctx.violation(&format!("c07/{}/size-field", ctor), || format!("{}({}): size field {} but the exact unpadded byte count of the fields is {}", ctor, args, g.size, want.len()));
        return;
    }
    if g.bytes.len() < want.len() || g.bytes[..want.len()] != *want {
        ctx.violation(&format!("c07/{}/image", ctor), || format!("{}({}): bytes {} differ from the specified encoding {}", ctor, args, json::hex(&g.bytes[..want.len().min(g.bytes.len())]), json::hex(want)));
        return;
    }
    let a: Vec<&Rec> = g.recs.iter().filter(|r| !r.name.contains("Debug") && r.name != "as_bytes.len").collect();
    let e: Vec<&Rec> = expected_recs.iter().filter(|r| r.name != "as_bytes.len").collect();
    for i in 0..a.len().max(e.len()) {
        if a.get(i) != e.get(i) {
            ctx.violation(&format!("c07/{}/read-back/{}", ctor, a.get(i).map(|r| r.name).unwrap_or("?")), || format!("{}({}): accessor read-back {:?}, arguments give {:?}", ctor, args, a.get(i), e.get(i)));
            return;
        }
    }
    ctx.class("ctor:exact");
}

/// as_bytes() must be obtainable at every address residue align_of permits.
fn placement<T: MaybeDynSized>(ctx: &mut Ctx, arena: &Arena, ctor: &'static str, v: T) {
    let al = std::mem::align_of::<T>();
    let mut r = 0;
    while r < 8 {
        let p = unsafe { arena.base().add(64 + r) } as *mut T;
        unsafe { std::ptr::copy_nonoverlapping(&v as *const T, p, 1) };
        let t: &T = unsafe { &*p };
        if ctx.call("as_bytes(placed)", || t.as_bytes().len()).is_panic() {
            ctx.violation(&format!("c07/{}/byte-view-placement", ctor), || format!("{}: as_bytes() panics when the tag is placed at an address = {} mod 8, which its alignment of {} permits", ctor, r, al));
        } else {
            ctx.class("placement:ok");
        }
        r += al;
    }
}

macro_rules! leaf {
    ($ctx:expr, $ctor:expr, $args:expr, $body:expr) => {{
        let a: String = $args;
        $ctx.leaf(|| J::obj().set("constructor", $ctor).set("arguments", a.as_str()), |ctx| {
            ctx.state_direct();
            ctx.nontrivial();
            let f: &dyn Fn(&mut Ctx) = &$body;
            f(ctx)
        });
    }};
}

fn sized_boot(ctx: &mut Ctx, arena: &Arena) {
    for a in tuples(&[2, 2, 4, 2, 2, 2, 2, 2, 2]) {
        leaf!(ctx, "ApmTag::new", format!("{:x?}", a), |ctx| {
            let want = bi::enc_apm(a[0] as u16, a[1] as u16, a[2] as u32, a[3] as u16, a[4] as u16, a[5] as u16, a[6] as u16, a[7] as u16, a[8] as u16);
            let got = ctx.call("ApmTag::new", || ApmTag::new(a[0] as u16, a[1] as u16, a[2] as u32, a[3] as u16, a[4] as u16, a[5] as u16, a[6] as u16, a[7] as u16, a[8] as u16));
            let got = match got { Out::Val(t) => { placement(ctx, arena, "ApmTag::new", unsafe { std::ptr::read(&t) }); Out::Val(built_bi(ctx, &t, &|b, t| battery::apm(b, t))) } Out::Panic => Out::Panic };
            judge(ctx, "ApmTag::new", &format!("{:x?}", a), got, &want, decode::tag(bi::APM, &want, true, true), false);
        });
    }
    for a in tuples(&[4, 4]) {
        leaf!(ctx, "BasicMemoryInfoTag::new", format!("{:x?}", a), |ctx| {
            let want = bi::enc_meminfo(a[0] as u32, a[1] as u32);
            let got = ctx.call("new", || BasicMemoryInfoTag::new(a[0] as u32, a[1] as u32));
            let got = match got { Out::Val(t) => { placement(ctx, arena, "BasicMemoryInfoTag::new", t); Out::Val(built_bi(ctx, &t, &|b, t| battery::meminfo(b, t))) } Out::Panic => Out::Panic };
            judge(ctx, "BasicMemoryInfoTag::new", &format!("{:x?}", a), got, &want, decode::tag(bi::MEMINFO, &want, true, true), false);
        });
    }
    for a in tuples(&[4, 4, 4]) {
        leaf!(ctx, "BootdevTag::new", format!("{:x?}", a), |ctx| {
            let want = bi::enc_bootdev(a[0] as u32, a[1] as u32, a[2] as u32);
            let got = ctx.call("new", || BootdevTag::new(a[0] as u32, a[1] as u32, a[2] as u32));
            let got = match got { Out::Val(t) => { placement(ctx, arena, "BootdevTag::new", unsafe { std::ptr::read(&t) }); Out::Val(built_bi(ctx, &t, &|b, t| battery::bootdev(b, t))) } Out::Panic => Out::Panic };
            judge(ctx, "BootdevTag::new", &format!("{:x?}", a), got, &want, decode::tag(bi::BOOTDEV, &want, true, true), false);
        });
    }
    macro_rules! one32 {
        ($name:expr, $ty:ty, $kind:expr, $bat:expr) => {
            for a in tuples(&[4]) {
                leaf!(ctx, $name, format!("{:x?}", a), |ctx| {
                    let want = bi::enc_u32($kind, a[0] as u32);
                    let got = ctx.call("new", || <$ty>::new(a[0] as u32));
                    let got = match got { Out::Val(t) => { placement(ctx, arena, $name, t); Out::Val(built_bi(ctx, &t, &$bat)) } Out::Panic => Out::Panic };
                    judge(ctx, $name, &format!("{:x?}", a), got, &want, decode::tag($kind, &want, true, true), false);
                });
            }
        };
    }
    macro_rules! one64 {
        ($name:expr, $ty:ty, $kind:expr, $bat:expr) => {
            for a in tuples(&[8]) {
                leaf!(ctx, $name, format!("{:x?}", a), |ctx| {
                    let want = bi::enc_u64($kind, a[0]);
                    let got = ctx.call("new", || <$ty>::new(a[0]));
                    let got = match got { Out::Val(t) => { placement(ctx, arena, $name, t); Out::Val(built_bi(ctx, &t, &$bat)) } Out::Panic => Out::Panic };
                    judge(ctx, $name, &format!("{:x?}", a), got, &want, decode::tag($kind, &want, true, true), false);
                });
            }
        };
    }
    one32!("EFISdt32Tag::new", EFISdt32Tag, bi::EFI32, |b, t| battery::efi32(b, t));
    one64!("EFISdt64Tag::new", EFISdt64Tag, bi::EFI64, |b, t| battery::efi64(b, t));
    one32!("EFIImageHandle32Tag::new", EFIImageHandle32Tag, bi::EFI32_IH, |b, t| battery::ih32(b, t));
    one64!("EFIImageHandle64Tag::new", EFIImageHandle64Tag, bi::EFI64_IH, |b, t| battery::ih64(b, t));
    one32!("ImageLoadPhysAddrTag::new", ImageLoadPhysAddrTag, bi::LOAD_BASE, |b, t| battery::load_base(b, t));
    for which in 0..2 {
        leaf!(ctx, "EFIBootServicesNotExitedTag", format!("{}", if which == 0 { "new()" } else { "default()" }), |ctx| {
            let want = bi::tag(bi::EFI_BS, &[]);
            let got = ctx.call("new", || if which == 0 { EFIBootServicesNotExitedTag::new() } else { EFIBootServicesNotExitedTag::default() });
            let got = match got { Out::Val(t) => { placement(ctx, arena, "EFIBootServicesNotExitedTag", t); Out::Val(built_bi(ctx, &t, &|b, t| battery::efi_bs(b, t))) } Out::Panic => Out::Panic };
            judge(ctx, "EFIBootServicesNotExitedTag", "", got, &want, decode::tag(bi::EFI_BS, &want, true, true), false);
        });
    }
    leaf!(ctx, "EndTag::default", String::new(), |ctx| {
        let want = bi::end_tag();
        let got = ctx.call("default", EndTag::default);
        let got = match got { Out::Val(t) => Out::Val(built_bi(ctx, &t, &|b, t| battery::end(b, t))), Out::Panic => Out::Panic };
        judge(ctx, "EndTag::default", "", got, &want, decode::tag(bi::END, &want, true, true), false);
    });
    // RSDP: checksum, oem id (6 bytes as one 6-byte argument), revision, rsdt
    for a in tuples(&[1, 6, 1, 4]) {
        leaf!(ctx, "RsdpV1Tag::new", format!("{:x?}", a), |ctx| {
            let mut oem = [0u8; 6];
            oem.copy_from_slice(&a[1].to_le_bytes()[..6]);
            let want = bi::enc_rsdp1(a[0] as u8, &oem, a[2] as u8, a[3] as u32);
            let got = ctx.call("new", || RsdpV1Tag::new(a[0] as u8, oem, a[2] as u8, a[3] as u32));
            let got = match got { Out::Val(t) => { placement(ctx, arena, "RsdpV1Tag::new", t); Out::Val(built_bi(ctx, &t, &|b, t| battery::rsdp1(b, t))) } Out::Panic => Out::Panic };
            judge(ctx, "RsdpV1Tag::new", &format!("{:x?}", a), got, &want, decode::tag(bi::ACPI1, &want, true, true), false);
        });
    }
    for a in tuples(&[1, 6, 1, 4, 4, 8, 1]) {
        if a[4] > 36 {
            continue; // the length argument is the RSDP length; beyond 36 the checksum read-back is not defined
        }
        leaf!(ctx, "RsdpV2Tag::new", format!("{:x?}", a), |ctx| {
            let mut oem = [0u8; 6];
            oem.copy_from_slice(&a[1].to_le_bytes()[..6]);
            let want = bi::enc_rsdp2(a[0] as u8, &oem, a[2] as u8, a[3] as u32, a[4] as u32, a[5], a[6] as u8);
            let got = ctx.call("new", || RsdpV2Tag::new(a[0] as u8, oem, a[2] as u8, a[3] as u32, a[4] as u32, a[5], a[6] as u8));
            let got = match got { Out::Val(t) => { placement(ctx, arena, "RsdpV2Tag::new", t); Out::Val(built_bi(ctx, &t, &|b, t| battery::rsdp2(b, t))) } Out::Panic => Out::Panic };
            judge(ctx, "RsdpV2Tag::new", &format!("{:x?}", a), got, &want, decode::tag(bi::ACPI2, &want, true, true), false);
        });
    }
    // VBE: four words + the two embedded blocks (default blocks with public fields marked)
    for a in tuples(&[2, 2, 2, 2]) {
        for mm in 0..8u8 {
            if mm > 0 && a != tuples(&[2, 2, 2, 2])[0] {
                continue;
            }
            leaf!(ctx, "VBEInfoTag::new", format!("{:x?} memory_model={}", a, mm), |ctx| {
                let mut control = VBEControlInfo::default();
                control.signature = *b"VESA";
                control.version = 0x0300;
                control.oem_string_ptr = 0xA1B2_C3D4;
                control.capabilities = VBECapabilities::from_bits_retain(0x8765_4321);
                control.mode_list_ptr = 0x1122_3344;
                control.total_memory = 0x5566;
                control.oem_software_revision = 0x7788;
                control.oem_vendor_name_ptr = 0x99AA_BBCC;
                control.oem_product_name_ptr = 0xDDEE_FF01;
                control.oem_product_revision_ptr = 0x0203_0405;
                let mut mode = VBEModeInfo::default();
                mode.mode_attributes = VBEModeAttributes::from_bits_retain(0xA1A2);
                mode.window_a_attributes = VBEWindowAttributes::from_bits_retain(0xA3);
                mode.window_b_attributes = VBEWindowAttributes::from_bits_retain(0xA4);
                mode.window_granularity = 0xA5A6;
                mode.window_size = 0xA7A8;
                mode.window_a_segment = 0xA9AA;
                mode.window_b_segment = 0xABAC;
                mode.window_function_ptr = 0xADAE_AFB0;
                mode.pitch = 0xB1B2;
                mode.resolution = (0xB3B4, 0xB5B6);
                mode.character_size = (0xB7, 0xB8);
                mode.number_of_planes = 0xB9;
                mode.bpp = 0xBA;
                mode.number_of_banks = 0xBB;
                mode.memory_model = [VBEMemoryModel::Text, VBEMemoryModel::CGAGraphics, VBEMemoryModel::HerculesGraphics, VBEMemoryModel::Planar, VBEMemoryModel::PackedPixel, VBEMemoryModel::Unchained, VBEMemoryModel::DirectColor, VBEMemoryModel::YUV][mm as usize];
                mode.bank_size = 0xBC;
                mode.number_of_image_pages = 0xBD;
                mode.red_field = VBEField { size: 0xC1, position: 0xC2 };
                mode.green_field = VBEField { size: 0xC3, position: 0xC4 };
                mode.blue_field = VBEField { size: 0xC5, position: 0xC6 };
                mode.reserved_field = VBEField { size: 0xC7, position: 0xC8 };
                mode.direct_color_attributes = VBEDirectColorAttributes::from_bits_retain(0xC9);
                mode.framebuffer_base_ptr = 0xCACB_CCCD;
                mode.offscreen_memory_offset = 0xCECF_D0D1;
                mode.offscreen_memory_size = 0xD2D3;
                // reference images of the two blocks, from the layout table
                let mut c = vec![0u8; 512];
                c[0..4].copy_from_slice(b"VESA");
                wr16(&mut c, 4, 0x0300);
                wr32(&mut c, 6, 0xA1B2_C3D4);
                wr32(&mut c, 10, 0x8765_4321);
                wr32(&mut c, 14, 0x1122_3344);
                wr16(&mut c, 18, 0x5566);
                wr16(&mut c, 20, 0x7788);
                wr32(&mut c, 22, 0x99AA_BBCC);
                wr32(&mut c, 26, 0xDDEE_FF01);
                wr32(&mut c, 30, 0x0203_0405);
                let mut m = vec![0u8; 256];
                wr16(&mut m, 0, 0xA1A2);
                m[2] = 0xA3;
                m[3] = 0xA4;
                wr16(&mut m, 4, 0xA5A6);
                wr16(&mut m, 6, 0xA7A8);
                wr16(&mut m, 8, 0xA9AA);
                wr16(&mut m, 10, 0xABAC);
                wr32(&mut m, 12, 0xADAE_AFB0);
                wr16(&mut m, 16, 0xB1B2);
                wr16(&mut m, 18, 0xB3B4);
                wr16(&mut m, 20, 0xB5B6);
                m[22] = 0xB7;
                m[23] = 0xB8;
                m[24] = 0xB9;
                m[25] = 0xBA;
                m[26] = 0xBB;
                m[27] = mm;
                m[28] = 0xBC;
                m[29] = 0xBD;
                m[31..39].copy_from_slice(&[0xC1, 0xC2, 0xC3, 0xC4, 0xC5, 0xC6, 0xC7, 0xC8]);
                m[39] = 0xC9;
                wr32(&mut m, 40, 0xCACB_CCCD);
                wr32(&mut m, 44, 0xCECF_D0D1);
                wr16(&mut m, 48, 0xD2D3);
                let want = bi::enc_vbe(a[0] as u16, a[1] as u16, a[2] as u16, a[3] as u16, &c, &m);
                let got = ctx.call("new", || VBEInfoTag::new(a[0] as u16, a[1] as u16, a[2] as u16, a[3] as u16, control, mode));
                let got = match got { Out::Val(t) => Out::Val(built_bi(ctx, &t, &|b, t| battery::vbe(b, t, true))), Out::Panic => Out::Panic };
                judge(ctx, "VBEInfoTag::new", &format!("{:x?}", a), got, &want, decode::tag(bi::VBE, &want, true, true), false);
            });
        }
    }
    // TagHeader::new
    for a in tuples(&[4, 4]) {
        leaf!(ctx, "TagHeader::new", format!("{:x?}", a), |ctx| {
            let r = ctx.call("new", || {
                let h = TagHeader::new(TagTypeId::new(a[0] as u32), a[1] as u32);
                (u32::from(h.typ), h.size)
            });
            match r {
                Out::Val((t, s)) if t == a[0] as u32 && s == a[1] as u32 => ctx.class("ctor:exact"),
                other => ctx.violation("c07/TagHeader::new", || format!("TagHeader::new({:x?}) reads back {:?}", a, other.val())),
            }
        });
    }
}

fn sized_header(ctx: &mut Ctx, arena: &Arena) {
    use mh::*;
    let flags = [HeaderTagFlag::Required, HeaderTagFlag::Optional];
    for (fi, &fl) in flags.iter().enumerate() {
        for a in tuples(&[4, 4, 4, 4]) {
            leaf!(ctx, "AddressHeaderTag::new", format!("flags={} {:x?}", fi, a), |ctx| {
                let want = hd::words(hd::ADDRESS, fi as u16, &[a[0] as u32, a[1] as u32, a[2] as u32, a[3] as u32]);
                let got = ctx.call("new", || AddressHeaderTag::new(fl, a[0] as u32, a[1] as u32, a[2] as u32, a[3] as u32));
                let got = match got { Out::Val(t) => { placement(ctx, arena, "AddressHeaderTag::new", t); Out::Val(built_hd(ctx, &t, &|b, t| hbattery::address(b, t))) } Out::Panic => Out::Panic };
                judge(ctx, "AddressHeaderTag::new", &format!("{:x?}", a), got, &want, hd::decode(hd::ADDRESS, &want), true);
            });
        }
        macro_rules! entry {
            ($name:expr, $ty:ty, $kind:expr, $bat:expr) => {
                for a in tuples(&[4]) {
                    leaf!(ctx, $name, format!("flags={} {:x?}", fi, a), |ctx| {
                        let want = hd::words($kind, fi as u16, &[a[0] as u32]);
                        let got = ctx.call("new", || <$ty>::new(fl, a[0] as u32));
                        let got = match got { Out::Val(t) => { placement(ctx, arena, $name, t); Out::Val(built_hd(ctx, &t, &$bat)) } Out::Panic => Out::Panic };
                        judge(ctx, $name, &format!("{:x?}", a), got, &want, hd::decode($kind, &want), true);
                    });
                }
            };
        }
        entry!("EntryAddressHeaderTag::new", EntryAddressHeaderTag, hd::ENTRY, |b, t| hbattery::entry(b, t));
        entry!("EntryEfi32HeaderTag::new", EntryEfi32HeaderTag, hd::ENTRY_EFI32, |b, t| hbattery::entry32(b, t));
        entry!("EntryEfi64HeaderTag::new", EntryEfi64HeaderTag, hd::ENTRY_EFI64, |b, t| hbattery::entry64(b, t));
        for (ci, cf) in [ConsoleHeaderTagFlags::ConsoleRequired, ConsoleHeaderTagFlags::EgaTextSupported].into_iter().enumerate() {
            leaf!(ctx, "ConsoleHeaderTag::new", format!("flags={} console_flags={}", fi, ci), |ctx| {
                let want = hd::words(hd::CONSOLE, fi as u16, &[ci as u32]);
                let got = ctx.call("new", || ConsoleHeaderTag::new(fl, cf));
                let got = match got { Out::Val(t) => { placement(ctx, arena, "ConsoleHeaderTag::new", t); Out::Val(built_hd(ctx, &t, &|b, t| hbattery::console(b, t))) } Out::Panic => Out::Panic };
                judge(ctx, "ConsoleHeaderTag::new", "", got, &want, hd::decode(hd::CONSOLE, &want), true);
            });
        }
        for a in tuples(&[4, 4, 4]) {
            leaf!(ctx, "FramebufferHeaderTag::new", format!("flags={} {:x?}", fi, a), |ctx| {
                let want = hd::words(hd::FRAMEBUFFER, fi as u16, &[a[0] as u32, a[1] as u32, a[2] as u32]);
                let got = ctx.call("new", || FramebufferHeaderTag::new(fl, a[0] as u32, a[1] as u32, a[2] as u32));
                let got = match got { Out::Val(t) => { placement(ctx, arena, "FramebufferHeaderTag::new", t); Out::Val(built_hd(ctx, &t, &|b, t| hbattery::framebuffer(b, t))) } Out::Panic => Out::Panic };
                judge(ctx, "FramebufferHeaderTag::new", &format!("{:x?}", a), got, &want, hd::decode(hd::FRAMEBUFFER, &want), true);
            });
        }
        leaf!(ctx, "ModuleAlignHeaderTag::new", format!("flags={}", fi), |ctx| {
            let want = hd::tag(hd::MODULE_ALIGN, fi as u16, &[]);
            let got = ctx.call("new", || ModuleAlignHeaderTag::new(fl));
            let got = match got { Out::Val(t) => { placement(ctx, arena, "ModuleAlignHeaderTag::new", t); Out::Val(built_hd(ctx, &t, &|b, t| hbattery::module_align(b, t))) } Out::Panic => Out::Panic };
            judge(ctx, "ModuleAlignHeaderTag::new", "", got, &want, hd::decode(hd::MODULE_ALIGN, &want), true);
        });
        leaf!(ctx, "EfiBootServiceHeaderTag::new", format!("flags={}", fi), |ctx| {
            let want = hd::tag(hd::EFI_BS, fi as u16, &[]);
            let got = ctx.call("new", || EfiBootServiceHeaderTag::new(fl));
            let got = match got { Out::Val(t) => { placement(ctx, arena, "EfiBootServiceHeaderTag::new", t); Out::Val(built_hd(ctx, &t, &|b, t| hbattery::efi_bs(b, t))) } Out::Panic => Out::Panic };
            judge(ctx, "EfiBootServiceHeaderTag::new", "", got, &want, hd::decode(hd::EFI_BS, &want), true);
        });
        for (pi, pref) in [RelocatableHeaderTagPreference::None, RelocatableHeaderTagPreference::Low, RelocatableHeaderTagPreference::High].into_iter().enumerate() {
            for a in tuples(&[4, 4, 4]) {
                leaf!(ctx, "RelocatableHeaderTag::new", format!("flags={} pref={} {:x?}", fi, pi, a), |ctx| {
                    let want = hd::words(hd::RELOCATABLE, fi as u16, &[a[0] as u32, a[1] as u32, a[2] as u32, pi as u32]);
                    let got = ctx.call("new", || RelocatableHeaderTag::new(fl, a[0] as u32, a[1] as u32, a[2] as u32, pref));
                    let got = match got { Out::Val(t) => { placement(ctx, arena, "RelocatableHeaderTag::new", t); Out::Val(built_hd(ctx, &t, &|b, t| hbattery::relocatable(b, t))) } Out::Panic => Out::Panic };
                    judge(ctx, "RelocatableHeaderTag::new", &format!("{:x?}", a), got, &want, hd::decode(hd::RELOCATABLE, &want), true);
                });
            }
        }
    }
    for which in 0..2 {
        leaf!(ctx, "EndHeaderTag", format!("{}", if which == 0 { "new()" } else { "default()" }), |ctx| {
            let want = hd::end_tag();
            let got = ctx.call("new", || if which == 0 { EndHeaderTag::new() } else { EndHeaderTag::default() });
            let got = match got {
                Out::Val(t) => {
                    placement(ctx, arena, "EndHeaderTag", t);
                    // build the record list from a copy placed 8-aligned
                    let p = arena.base() as *mut EndHeaderTag;
                    unsafe { p.write(t) };
                    let t: &EndHeaderTag = unsafe { &*p };
                    match ctx.call("as_bytes", || built_hd_quiet(t)) {
                        Out::Val(b) => Out::Val(b),
                        Out::Panic => Out::Panic,
                    }
                }
                Out::Panic => Out::Panic,
            };
            judge(ctx, "EndHeaderTag", "", got, &want, vec![], true);
        });
    }
    // HeaderTagHeader::new
    for ty in 0..=10u16 {
        for (fi, &fl) in flags.iter().enumerate() {
            for a in tuples(&[4]) {
                leaf!(ctx, "HeaderTagHeader::new", format!("type={} flags={} {:x?}", ty, fi, a), |ctx| {
                    let types = [HeaderTagType::End, HeaderTagType::InformationRequest, HeaderTagType::Address, HeaderTagType::EntryAddress, HeaderTagType::ConsoleFlags, HeaderTagType::Framebuffer, HeaderTagType::ModuleAlign, HeaderTagType::EfiBS, HeaderTagType::EntryAddressEFI32, HeaderTagType::EntryAddressEFI64, HeaderTagType::Relocatable];
                    let r = ctx.call("new", || {
                        let h = HeaderTagHeader::new(types[ty as usize], fl, a[0] as u32);
                        let raw: [u8; 8] = unsafe { std::mem::transmute(h) };
                        (h.typ() as u16, h.flags() as u16, h.size(), raw)
                    });
                    let want = hd::tag(ty, fi as u16, &[]);
                    match r {
                        Out::Val((t, f, s, raw)) if t == ty && f == fi as u16 && s == a[0] as u32 && raw[..4] == want[..4] && rd32(&raw, 4) == a[0] as u32 => ctx.class("ctor:exact"),
                        other => ctx.violation("c07/HeaderTagHeader::new", || format!("HeaderTagHeader::new(type {}, flags {}, {:x?}) gives {:?}", ty, fi, a, other.val())),
                    }
                });
            }
        }
    }
}

fn built_hd_quiet(t: &mh::EndHeaderTag) -> Built {
    Built { id: <mh::EndHeaderTag as Tag>::ID as u16 as u32, typ: t.typ() as u16 as u32, size: t.size(), bytes: t.as_bytes().to_vec(), recs: vec![] }
}

#[cfg(feature = "builder")]
fn boxed(ctx: &mut Ctx) {
    let maxn = if ctx.quick() { 24 } else { 40 };
    // argument slices lie at an 8-aligned address for even salts + lengths and at an odd address otherwise (under the
    // exact-alignment allocator a Vec<u8> would always be odd: a fast path for aligned input must be reachable)
    struct Bytes {
        backing: Vec<u64>,
        off: usize,
        n: usize,
    }
    impl std::ops::Deref for Bytes {
        type Target = [u8];
        fn deref(&self) -> &[u8] {
            unsafe { std::slice::from_raw_parts((self.backing.as_ptr() as *const u8).add(self.off), self.n) }
        }
    }
    let content = |n: usize, salt: usize| -> Bytes {
        let mut backing: Vec<u64> = vec![0; n / 8 + 2];
        let off = (n + salt / 2) % 2;
        let bytes: &mut [u8] = unsafe { std::slice::from_raw_parts_mut(backing.as_mut_ptr() as *mut u8, backing.len() * 8) };
        for i in 0..n {
            bytes[off + i] = marker(i, salt);
        }
        Bytes { backing, off, n }
    };
    // every length up to maxn, then the lengths around the width boundaries of 8- and 16-bit counters
    let mut lens: Vec<usize> = (0..=maxn).collect();
    lens.extend([254, 255, 256, 257, 4095, 4096, 4097, 65534, 65535, 65536, 65537]);
    for n in lens {
        // strings (text rules are C17's; here: every padding residue)
        for (name, kind) in [("CommandLineTag::new", bi::CMDLINE), ("BootLoaderNameTag::new", bi::BOOTLOADER)] {
            leaf!(ctx, name, format!("text of {} bytes", n), |ctx| {
                let text: String = (0..n).map(|i| (b'a' + (i % 26) as u8) as char).collect();
                let mut want_c = text.as_bytes().to_vec();
                want_c.push(0);
                let want = bi::enc_string(kind, &want_c);
                let got = ctx.call("new", || if kind == bi::CMDLINE { let t = CommandLineTag::new(&text); built_bi(ctx_dummy(), &*t, &|_, _| {}) } else { let t = BootLoaderNameTag::new(&text); built_bi(ctx_dummy(), &*t, &|_, _| {}) });
                judge(ctx, name, &format!("{} bytes", n), got, &want, vec![], false);
            });
        }
        for a in [(1u32, 2u32), (0, u32::MAX), (0x8182_8384, 0x9192_9394)] {
            leaf!(ctx, "ModuleTag::new", format!("{:x?} text of {} bytes", a, n), |ctx| {
                let text: String = (0..n).map(|i| (b'a' + (i % 26) as u8) as char).collect();
                let mut want_c = text.as_bytes().to_vec();
                want_c.push(0);
                let want = bi::enc_module(a.0, a.1, &want_c);
                let got = ctx.call("new", || { let t = ModuleTag::new(a.0, a.1, &text); built_bi(ctx_dummy(), &*t, &|b, t| battery::module(b, t)) });
                judge(ctx, "ModuleTag::new", &format!("{:x?}", a), got, &want, decode::tag(bi::MODULE, &want, true, true), false);
            });
        }
        leaf!(ctx, "SmbiosTag::new", format!("tables of {} bytes", n), |ctx| {
            let c = content(n, 41);
            let want = bi::enc_smbios(0xA7, 0xB8, &c);
            let got = ctx.call("new", || { let t = SmbiosTag::new(0xA7, 0xB8, &c); built_bi(ctx_dummy(), &*t, &|b, t| battery::smbios(b, t)) });
            judge(ctx, "SmbiosTag::new", "", got, &want, decode::tag(bi::SMBIOS, &want, true, true), false);
        });
        leaf!(ctx, "NetworkTag::new", format!("dhcp ack of {} bytes", n), |ctx| {
            let c = content(n, 43);
            let want = bi::tag(bi::NETWORK, &c);
            let got = ctx.call("new", || { let t = NetworkTag::new(&c); built_bi(ctx_dummy(), &*t, &|b, t| battery::network(b, t)) });
            judge(ctx, "NetworkTag::new", "", got, &want, decode::tag(bi::NETWORK, &want, true, true), false);
        });
        leaf!(ctx, "ElfSectionsTag::new", format!("section bytes {}", n), |ctx| {
            let c = content(n, 45);
            let want = bi::enc_elf(0, 0xA1B2_C3D4, 0xE5F6_0718, &c);
            let got = ctx.call("new", || { let t = ElfSectionsTag::new(0, 0xA1B2_C3D4, 0xE5F6_0718, &c); built_bi(ctx_dummy(), &*t, &|_, _| {}) });
            judge(ctx, "ElfSectionsTag::new", "", got, &want, vec![], false);
        });
        leaf!(ctx, "EFIMemoryMapTag::new_from_map", format!("map of {} bytes", n), |ctx| {
            let c = content(n, 47);
            let want = bi::enc_efi_mmap(0x0000_0030, 0x8192_A3B4, &c);
            let got = ctx.call("new", || { let t = EFIMemoryMapTag::new_from_map(0x30, 0x8192_A3B4, &c); built_bi(ctx_dummy(), &*t, &|_, _| {}) });
            judge(ctx, "EFIMemoryMapTag::new_from_map", "", got, &want, vec![], false);
        });
    }
    // blobs with an inner structure of their own: stored as supplied by every blob constructor
    for (what, c) in bi::structured_blobs() {
        leaf!(ctx, "SmbiosTag::new", format!("tables = {}", what), |ctx| {
            let want = bi::enc_smbios(3, 2, &c);
            let got = ctx.call("new", || { let t = SmbiosTag::new(3, 2, &c); built_bi(ctx_dummy(), &*t, &|b, t| battery::smbios(b, t)) });
            judge(ctx, "SmbiosTag::new", what, got, &want, decode::tag(bi::SMBIOS, &want, true, true), false);
        });
        leaf!(ctx, "NetworkTag::new", format!("packet = {}", what), |ctx| {
            let want = bi::tag(bi::NETWORK, &c);
            let got = ctx.call("new", || { let t = NetworkTag::new(&c); built_bi(ctx_dummy(), &*t, &|b, t| battery::network(b, t)) });
            judge(ctx, "NetworkTag::new", what, got, &want, decode::tag(bi::NETWORK, &want, true, true), false);
        });
        leaf!(ctx, "ElfSectionsTag::new", format!("section bytes = {}", what), |ctx| {
            let want = bi::enc_elf(0, 64, 0, &c);
            let got = ctx.call("new", || { let t = ElfSectionsTag::new(0, 64, 0, &c); built_bi(ctx_dummy(), &*t, &|_, _| {}) });
            judge(ctx, "ElfSectionsTag::new", what, got, &want, vec![], false);
        });
    }
    // memory areas that end exactly at 2^64 or wrap around it: the constructor stores its three arguments as they are
    for (base, len) in [(0xFFFF_FFFF_FFFF_F000u64, 0x1000u64), (0x8000_0000_0000_0000, 0x8000_0000_0000_0000), (u64::MAX, 1), (u64::MAX, u64::MAX), (1, u64::MAX), (0xFFFF_FFFF, 1), (0xFFFF_F000, 0x1000)] {
        for t in [1u32, 2, 3, 4, 5, 0, 6, 0x1000] {
            leaf!(ctx, "MemoryArea::new", format!("base {:#x} length {:#x} type {}", base, len, t), |ctx| {
                let ty = match t { 1 => MemoryAreaType::Available, 2 => MemoryAreaType::Reserved, 3 => MemoryAreaType::AcpiAvailable, 4 => MemoryAreaType::ReservedHibernate, 5 => MemoryAreaType::Defective, x => MemoryAreaType::Custom(x) };
                let want = bi::enc_mmap(24, 0, &[(base, len, t, 0)]);
                let got = ctx.call("new", || {
                    let a = MemoryArea::new(base, len, ty);
                    let tag = MemoryMapTag::new(&[a]);
                    (a.start_address(), a.size(), u32::from(a.typ()), tag.as_bytes().to_vec())
                });
                match got {
                    Out::Val((b2, l2, t2, bytes)) if b2 == base && l2 == len && t2 == t && bytes[..] == want[..] => ctx.class("ctor:area-stored"),
                    Out::Val((b2, l2, t2, bytes)) => ctx.violation("c07/MemoryArea::new/stored", || format!("MemoryArea::new({:#x}, {:#x}, type {}): reads back as ({:#x}, {:#x}, type {}), tag bytes {:02x?}", base, len, t, b2, l2, t2, &bytes[16.min(bytes.len())..])),
                    Out::Panic => ctx.violation("c07/MemoryArea::new/panic", || format!("MemoryArea::new({:#x}, {:#x}, type {}) / MemoryMapTag::new panicked", base, len, t)),
                }
            });
        }
    }
    // EFI maps with the stride real firmware reports (48) and with 40, read back through the descriptor iterator
    // (remaining length at every step)
    for ds in [48u32, 40, 56] {
        for n in [1usize, 5, 6, 8, 10, 12] {
            leaf!(ctx, "EFIMemoryMapTag::new_from_map", format!("{} descriptors at stride {} read back", n, ds), |ctx| {
                let mut map = vec![];
                for i in 0..n {
                    let mut d = bi::enc_efi_desc(1 + i as u32 % 7, 0x10_0000 * i as u64, 0, 16 + i as u64, 0xF);
                    d.resize(ds as usize, 0);
                    map.extend(d);
                }
                let want = bi::enc_efi_mmap(ds, 1, &map);
                let got = ctx.call("new", || { let t = EFIMemoryMapTag::new_from_map(ds, 1, &map); built_bi(ctx_dummy(), &*t, &|b, t| battery::efi_mmap(b, t)) });
                judge(ctx, "EFIMemoryMapTag::new_from_map", "", got, &want, decode::tag(bi::EFI_MMAP, &want, true, true), false);
            });
        }
    }
    // a full ELF table with names read back
    for layout in [64u32, 40] {
        leaf!(ctx, "ElfSectionsTag::new", format!("two ELF{} entries", if layout == 64 { 64 } else { 32 }), |ctx| {
            let mut s = Vec::new();
            for i in 0..2u32 {
                if layout == 64 {
                    s.extend(bi::enc_shdr64(i, 1 + i, 0xF1 + i as u64, 0xA000_0000_0000 + i as u64, 9, 0x1000 + i as u64, 1, 2, 16, 3));
                } else {
                    s.extend(bi::enc_shdr32(i, 1 + i, 0xF1 + i, 0xA000_0000 + i, 9, 0x1000 + i, 1, 2, 16, 3));
                }
            }
            let want = bi::enc_elf(2, layout, 1, &s);
            let got = ctx.call("new", || { let t = ElfSectionsTag::new(2, layout, 1, &s); built_bi(ctx_dummy(), &*t, &|b, t| battery::elf(b, t, false)) });
            judge(ctx, "ElfSectionsTag::new", "", got, &want, decode::tag(bi::ELF, &want, true, true), false);
        });
    }
    // ELF sections: every argument over boundary and escape values, on section data of several lengths
    {
        let mut xs: Vec<u32> = EDGE32.to_vec();
        xs.extend([0xFF00, 0xFFF1, 0xFFF2, 0xFF1F, 40, 64]);
        let datas: Vec<Vec<u8>> = [0usize, 27, 28, 43, 44, 40, 64, 80, 120, 128, 192].iter().map(|&n| (0..n).map(|i| marker(i, 49)).collect()).collect();
        for data in &datas {
            for &num in &[0u32, 1, 3, 0xFFFF] {
                for &es in &[40u32, 64, 0, 48] {
                    for &shndx in &xs {
                        leaf!(ctx, "ElfSectionsTag::new", format!("num {} entry size {} shndx {:#x} on {} section bytes", num, es, shndx, data.len()), |ctx| {
                            let want = bi::enc_elf(num, es, shndx, data);
                            let got = ctx.call("new", || { let t = ElfSectionsTag::new(num, es, shndx, data); built_bi(ctx_dummy(), &*t, &|_, _| {}) });
                            judge(ctx, "ElfSectionsTag::new", "", got, &want, vec![], false);
                        });
                    }
                }
            }
        }
    }
    // EFIMemoryMapTag::new_from_map: every combination of descriptor size, version and map length (incl. maps that
    // happen to have the native descriptor layout)
    for ds in [40u32, 48, 0x30, 1, 8, 44, 0xFFFF_FFFF] {
        for ver in [0u32, 1, 2, 0x8192_A3B4] {
            for n in [0usize, 1, 39, 40, 41, 48, 80, 96, 120] {
                for misalign in [0usize, 1] {
                    leaf!(ctx, "EFIMemoryMapTag::new_from_map", format!("desc_size {} version {:#x} map of {} bytes at an address that is {} modulo 8", ds, ver, n, misalign), |ctx| {
                        // the argument slice lies at a chosen alignment (the allocator would hand out an odd address)
                        let mut backing: Vec<u64> = vec![0; n / 8 + 2];
                        let bytes: &mut [u8] = unsafe { std::slice::from_raw_parts_mut(backing.as_mut_ptr() as *mut u8, backing.len() * 8) };
                        let c0 = content(n, 53);
                        bytes[misalign..misalign + n].copy_from_slice(&c0);
                        let c: &[u8] = &bytes[misalign..misalign + n];
                        let want = bi::enc_efi_mmap(ds, ver, c);
                        let got = ctx.call("new", || { let t = EFIMemoryMapTag::new_from_map(ds, ver, c); built_bi(ctx_dummy(), &*t, &|_, _| {}) });
                        judge(ctx, "EFIMemoryMapTag::new_from_map", "", got, &want, vec![], false);
                    });
                }
            }
        }
    }
    // memory maps
    for n in [0usize, 1, 2, 3, 4, 10, 11, 255, 256, 257] {
        leaf!(ctx, "MemoryMapTag::new", format!("{} areas", n), |ctx| {
            let types = [MemoryAreaType::Available, MemoryAreaType::Reserved, MemoryAreaType::AcpiAvailable, MemoryAreaType::ReservedHibernate, MemoryAreaType::Defective, MemoryAreaType::Custom(0xC1C2_C3C4)];
            let nums = [1u32, 2, 3, 4, 5, 0xC1C2_C3C4];
            let areas: Vec<MemoryArea> = (0..n).map(|i| MemoryArea::new(0xA1A2_A3A4_A5A6_0000 + i as u64, 0x0102_0304_0506_0000 + i as u64, types[(i + n) % 6])).collect();
            let ents: Vec<(u64, u64, u32, u32)> = (0..n).map(|i| (0xA1A2_A3A4_A5A6_0000 + i as u64, 0x0102_0304_0506_0000 + i as u64, nums[(i + n) % 6], 0)).collect();
            let want = bi::enc_mmap(24, 0, &ents);
            let got = ctx.call("new", || { let t = MemoryMapTag::new(&areas); built_bi(ctx_dummy(), &*t, &|b, t| battery::mmap(b, t)) });
            judge(ctx, "MemoryMapTag::new", "", got, &want, decode::tag(bi::MMAP, &want, true, true), false);
        });
        leaf!(ctx, "EFIMemoryMapTag::new_from_descs", format!("{} descriptors", n), |ctx| {
            let descs: Vec<EFIMemoryDesc> = (0..n).map(|i| EFIMemoryDesc { ty: EFIMemoryAreaType(0x8182_8384 + i as u32), phys_start: 0x1111_2222_3333_0000 + i as u64, virt_start: 0x4444_5555_6666_0000 + i as u64, page_count: 0x7777_0000 + i as u64, att: EFIMemoryAttribute::from_bits_retain(0x8000_0000_0000_F00F + i as u64) }).collect();
            let mut map = Vec::new();
            for i in 0..n {
                map.extend(bi::enc_efi_desc(0x8182_8384 + i as u32, 0x1111_2222_3333_0000 + i as u64, 0x4444_5555_6666_0000 + i as u64, 0x7777_0000 + i as u64, 0x8000_0000_0000_F00F + i as u64));
            }
            let want = bi::enc_efi_mmap(40, 1, &map);
            let got = ctx.call("new", || { let t = EFIMemoryMapTag::new_from_descs(&descs); built_bi(ctx_dummy(), &*t, &|b, t| battery::efi_mmap(b, t)) });
            // the 4 padding bytes inside each descriptor are not arguments: compare field-wise through the read-back
            let got = match got { Out::Val(mut g) => { for i in 0..n { let o = 16 + 40 * i + 4; if g.bytes.len() >= o + 4 { g.bytes[o..o + 4].copy_from_slice(&[0; 4]); } } Out::Val(g) } p => p };
            judge(ctx, "EFIMemoryMapTag::new_from_descs", "", got, &want, decode::tag(bi::EFI_MMAP, &want, true, true), false);
        });
    }
    // contents with internal relations: texts with interior / repeated NULs, areas and descriptors that are equal,
    // contiguous, overlapping, empty or wrap around (a constructor that normalises, merges or cuts is not spec-exact)
    {
        const SYMS: [&str; 3] = ["a", "\0", "\u{e9}"];
        let mut rel_texts: Vec<String> = vec![];
        for len in 0..=4usize {
            for code in 0..3usize.pow(len as u32) {
                rel_texts.push((0..len).map(|i| SYMS[(code / 3usize.pow(i as u32)) % 3]).collect());
            }
        }
        // texts as boot loaders pass them: a constructor that tidies them up (path, quotes, whitespace) is not spec-exact
        for t in ["/boot/initrd.img root=/dev/ram0 quiet", "(hd0,1)/boot/kernel.elf --serial com1", "\"quoted module\" arg", "'single' arg", "console=ttyS0,115200n8 ", "console=ttyS0 quiet\n", "quiet\r\n", "\n", "\t", " root=/dev/sda1", "GRUB 2.06", "a  b", "/", "/ x", "x /y z", "key=\"v w\"", "C:\\EFI\\boot\\bootx64.efi arg", "tab\tseparated", "line1\nline2", "\"\"", "''", "  "] {
            rel_texts.push(t.to_string());
        }
        {
            for text in rel_texts {
                let mut want_c = text.as_bytes().to_vec();
                if want_c.last() != Some(&0) {
                    want_c.push(0);
                }
                for (name, kind) in [("CommandLineTag::new", bi::CMDLINE), ("BootLoaderNameTag::new", bi::BOOTLOADER), ("ModuleTag::new", bi::MODULE)] {
                    leaf!(ctx, name, format!("text {:?} (symbols a / NUL / e-acute)", text), |ctx| {
                        let want = if kind == bi::MODULE { bi::enc_module(0x1000, 0x2000, &want_c) } else { bi::enc_string(kind, &want_c) };
                        let got = ctx.call("new", || match kind {
                            bi::CMDLINE => { let t = CommandLineTag::new(&text); built_bi(ctx_dummy(), &*t, &|_, _| {}) }
                            bi::BOOTLOADER => { let t = BootLoaderNameTag::new(&text); built_bi(ctx_dummy(), &*t, &|_, _| {}) }
                            _ => { let t = ModuleTag::new(0x1000, 0x2000, &text); built_bi(ctx_dummy(), &*t, &|_, _| {}) }
                        });
                        judge(ctx, name, &format!("{:?}", text), got, &want, vec![], false);
                    });
                }
            }
        }
        // (the last one is entirely zero: type 0, base 0, length 0)
        let area_alpha: [(u64, u64, u32); 8] = [(0x1000, 0x1000, 1), (0x2000, 0x1000, 1), (0x2000, 0x1000, 2), (0x3000, 0, 1), (0, 0, 1), (0xFFFF_FFFF_FFFF_E000, 0x1000, 1), (0x10_0000, 0x10_0000, 1), (0, 0, 0)];
        let maxlen = if ctx.quick() { 3 } else { 4 };
        for len in 1..=maxlen {
            for code in 0..8usize.pow(len as u32) {
                let seq: Vec<(u64, u64, u32)> = (0..len).map(|i| area_alpha[(code / 8usize.pow(i as u32)) % 8]).collect();
                leaf!(ctx, "MemoryMapTag::new", format!("areas {:x?} (base, length, type)", seq), |ctx| {
                    let areas: Vec<MemoryArea> = seq.iter().map(|&(b, l, t)| MemoryArea::new(b, l, match t { 1 => MemoryAreaType::Available, 2 => MemoryAreaType::Reserved, _ => MemoryAreaType::Custom(0) })).collect();
                    let ents: Vec<(u64, u64, u32, u32)> = seq.iter().map(|&(b, l, t)| (b, l, t, 0)).collect();
                    let want = bi::enc_mmap(24, 0, &ents);
                    let got = ctx.call("new", || { let t = MemoryMapTag::new(&areas); built_bi(ctx_dummy(), &*t, &|b, t| battery::mmap(b, t)) });
                    judge(ctx, "MemoryMapTag::new", "", got, &want, decode::tag(bi::MMAP, &want, true, true), false);
                });
                leaf!(ctx, "EFIMemoryMapTag::new_from_descs", format!("descriptors {:x?} (phys start, pages * 4096, type)", seq), |ctx| {
                    let descs: Vec<EFIMemoryDesc> = seq.iter().map(|&(b, l, t)| EFIMemoryDesc { ty: EFIMemoryAreaType(if t == 0 { 0 } else { 6 + t }), phys_start: b, virt_start: 0, page_count: l / 4096, att: EFIMemoryAttribute::from_bits_retain(if t == 0 { 0 } else { 0xF }) }).collect();
                    let mut map = Vec::new();
                    for &(b, l, t) in &seq {
                        map.extend(bi::enc_efi_desc(if t == 0 { 0 } else { 6 + t }, b, 0, l / 4096, if t == 0 { 0 } else { 0xF }));
                    }
                    let want = bi::enc_efi_mmap(40, 1, &map);
                    let n = seq.len();
                    let got = ctx.call("new", || { let t = EFIMemoryMapTag::new_from_descs(&descs); built_bi(ctx_dummy(), &*t, &|b, t| battery::efi_mmap(b, t)) });
                    let got = match got { Out::Val(mut g) => { for i in 0..n { let o = 16 + 40 * i + 4; if g.bytes.len() >= o + 4 { g.bytes[o..o + 4].copy_from_slice(&[0; 4]); } } Out::Val(g) } p => p };
                    judge(ctx, "EFIMemoryMapTag::new_from_descs", "", got, &want, decode::tag(bi::EFI_MMAP, &want, true, true), false);
                });
            }
        }
    }
    // framebuffer: three colour-info variants, palette lengths 0..=8
    for a in tuples(&[8, 4, 4, 4, 1]) {
        for variant in (0..(2 + 9)).chain([2 + 254, 2 + 255, 2 + 256, 2 + 257, 2 + 1000, 2 + 65535]) {
            if variant > 3 && a != tuples(&[8, 4, 4, 4, 1])[0] {
                continue;
            }
            leaf!(ctx, "FramebufferTag::new", format!("{:x?} variant {}", a, variant), |ctx| {
                let pal: Vec<FramebufferColor> = (0..variant.max(2) - 2).map(|i| FramebufferColor { red: (0x91 + i) as u8, green: (0xA1 + i * 3) as u8, blue: (0xB1 + i * 7) as u8 }).collect();
                let (ty, typ_byte, info): (FramebufferType, u8, Vec<u8>) = match variant {
                    0 => (FramebufferType::Text, 2, vec![]),
                    1 => (FramebufferType::RGB { red: FramebufferField { position: 0xE1, size: 0xE2 }, green: FramebufferField { position: 0xE3, size: 0xE4 }, blue: FramebufferField { position: 0xE5, size: 0xE6 } }, 1, vec![0xE1, 0xE2, 0xE3, 0xE4, 0xE5, 0xE6]),
                    _ => (FramebufferType::Indexed { palette: &pal }, 0, bi::enc_palette(&pal.iter().map(|c| (c.red, c.green, c.blue)).collect::<Vec<_>>())),
                };
                let want = bi::enc_framebuffer(a[0], a[1] as u32, a[2] as u32, a[3] as u32, a[4] as u8, typ_byte, &info);
                let got = ctx.call("new", || { let t = FramebufferTag::new(a[0], a[1] as u32, a[2] as u32, a[3] as u32, a[4] as u8, ty.clone()); built_bi(ctx_dummy(), &*t, &|b, t| battery::framebuffer(b, t)) });
                judge(ctx, "FramebufferTag::new", &format!("{:x?}", a), got, &want, decode::tag(bi::FRAMEBUFFER, &want, true, true), false);
            });
        }
    }
    // information request (header crate)
    for fi in 0..2u16 {
        for n in (0..=maxn).chain([255, 256, 257, 16383, 16384]) {
            leaf!(ctx, "InformationRequestHeaderTag::new", format!("flags={} {} requests", fi, n), |ctx| {
                let fl = if fi == 0 { mh::HeaderTagFlag::Required } else { mh::HeaderTagFlag::Optional };
                let nums: Vec<u32> = (0..n as u32).map(|i| if i % 3 == 0 { i } else { 0x8182_0000 + i }).collect();
                let reqs: Vec<mh::MbiTagTypeId> = nums.iter().map(|&x| mh::MbiTagTypeId::new(x)).collect();
                let want = hd::words(hd::INFO_REQ, fi, &nums);
                let got = ctx.call("new", || { let t = mh::InformationRequestHeaderTag::new(fl, &reqs); built_hd(ctx_dummy(), &*t, &|b, t| hbattery::info_req(b, t)) });
                judge(ctx, "InformationRequestHeaderTag::new", "", got, &want, hd::decode(hd::INFO_REQ, &want), true);
            });
        }
    }
    // request lists with repeated, ordered / unordered and specified ids (a constructor that sorts, merges or
    // de-duplicates is not spec-exact)
    for fi in 0..2u16 {
        let ids = [1u32, 6, 21, 0, 0x1337, 17];
        for len in 0..=4usize {
            for code in 0..ids.len().pow(len as u32) {
                let nums: Vec<u32> = (0..len).map(|i| ids[(code / ids.len().pow(i as u32)) % ids.len()]).collect();
                leaf!(ctx, "InformationRequestHeaderTag::new", format!("flags={} requests {:?}", fi, nums), |ctx| {
                    let fl = if fi == 0 { mh::HeaderTagFlag::Required } else { mh::HeaderTagFlag::Optional };
                    let reqs: Vec<mh::MbiTagTypeId> = nums.iter().map(|&x| mh::MbiTagTypeId::new(x)).collect();
                    let want = hd::words(hd::INFO_REQ, fi, &nums);
                    let got = ctx.call("new", || { let t = mh::InformationRequestHeaderTag::new(fl, &reqs); built_hd(ctx_dummy(), &*t, &|b, t| hbattery::info_req(b, t)) });
                    judge(ctx, "InformationRequestHeaderTag::new", "", got, &want, hd::decode(hd::INFO_REQ, &want), true);
                });
            }
        }
    }
    // documented preconditions: violating them must be a controlled panic
    leaf!(ctx, "ModuleTag::new(end <= start)", String::new(), |ctx| {
        match ctx.call("new", || ModuleTag::new(5, 5, "x").header().size) {
            Out::Panic => ctx.class("ctor:precondition-panic"),
            Out::Val(_) => ctx.class("ctor:precondition-accepted"),
        }
    });
}

#[cfg(feature = "builder")]
fn ctx_dummy() -> &'static mut Ctx {
    // a secondary context for read-back batteries that run inside a `ctx.call` closure;
    // its counters are irrelevant (the outer call already counts one transition).
    thread_local! { static D: std::cell::Cell<*mut Ctx> = const { std::cell::Cell::new(std::ptr::null_mut()) }; }
    D.with(|d| {
        if d.get().is_null() {
            let mut o = Opts::from_args("C07");
            o.describe = Some(u64::MAX); // no crash-file side effects
            o.verbose = false;
            d.set(Box::into_raw(Box::new(Ctx::new_secondary(o))));
        }
        unsafe { &mut *d.get() }
    })
}

#[cfg(not(feature = "builder"))]
fn boxed(ctx: &mut Ctx) {
    ctx.bound("boxed", "heap constructors are not part of this configuration (no builder/alloc feature)");
}

fn run(ctx: &mut Ctx) {
    let arena = Arena::new(1);
    ctx.bound("sized", "every sized constructor of both crates: a marker argument tuple, {0,1,MAX,MAX-1,0x80..} per argument, every pair of equal-width arguments set to one and the same value, sparse tuples (all arguments 0 resp. all-ones except none, one or two), a dictionary per argument (BCD versions 1.0..3.0, 0xB8000, 0xA0000, 1 MiB, every EDGE32 value that fits), every single-byte perturbation of every argument with {00,01,02,04,08,10,20,40,80,FF}; enumerated arguments over all variants; as_bytes() at every address residue the type's alignment permits");
    ctx.bound("boxed_elf_arguments", "ElfSectionsTag::new: number 0/1/3/0xFFFF x entry size 40/64/0/48 x string-table index over EDGE32 + {0xFF00, 0xFFF1, 0xFFF2, 0xFF1F, 40, 64} x 11 section-data lengths (0..=192 bytes)");
    ctx.bound("boxed_request_lists", "InformationRequestHeaderTag::new: every list of length 0..=4 over the ids {1, 6, 21, 0, 0x1337, 17} (repeated, unordered, specified and custom ids), both flags");
    ctx.bound("boxed_efi_map_arguments", "EFIMemoryMapTag::new_from_map: descriptor size {40, 48, 1, 8, 44, 0xFFFFFFFF} (0 is refused by a documented assertion) x version {0, 1, 2, a marker} x map lengths {0, 1, 39, 40, 41, 48, 80, 96, 120}, the argument slice 8-aligned and at an odd address");
    ctx.bound("boxed_relational", "heap constructors with related contents: every text of length <= 4 over {a, NUL, e-acute} for the three string kinds (interior, leading, repeated, trailing NULs); every sequence of 1..=3 (thorough: 4) memory areas / EFI descriptors over 8 ranges that are equal, contiguous, overlapping, empty, entirely zero, of different type or end just below 2^64");
    ctx.bound("boxed_bound", "heap constructors: content lengths 0..=24 (quick) / 0..=40 (every padding residue at least three times) and the lengths around 8- and 16-bit counter boundaries (254..257, 4095..4097, 65534..65537); 0..=4, 10, 11, 255..257 memory areas / EFI descriptors; three framebuffer colour-info variants with palettes of 0..=8, 254..257, 1000 and 65535 colours; 0..=24, 255..257, 16383, 16384 information requests");
    sized_boot(ctx, &arena);
    sized_header(ctx, &arena);
    boxed(ctx);
}

fn main() {
    main_wrap("C07", run);
}
