//! C15 - casting to a (user-defined) tag type never yields a view larger than
//! the tag; the typed view's fields alias the tag's bytes.
use mbvlib::battery::{self, Bat, BatOpts, Val};
use mbvlib::spec::bi;
use mbvlib::spec::*;
use mbvlib::*;
use multiboot2::{BootInformation, BootInformationHeader, DynSizedStructure, TagHeader, TagType};
use multiboot2_common::{MaybeDynSized, Tag};

type Generic = DynSizedStructure<TagHeader>;

/// What a typed view shows: its address offset, size_of_val, and the bytes
/// read through its fields at their byte offsets (offset, bytes).
struct View {
    addr_off: i64,
    sov: usize,
    fields: Vec<(usize, Vec<u8>)>,
}

trait Family: MaybeDynSized<Header = TagHeader> + Tag<IDType = TagType> {
    const NAME: &'static str;
    /// alignment the type demands (tags are placed accordingly)
    const ALIGN: usize = 8;
    fn view(&self, base: *const u8) -> View;
}

macro_rules! sized_ty {
    ($name:ident, $n:expr, $id:expr) => {
        #[repr(C, align(8))]
        struct $name {
            header: TagHeader,
            words: [u32; $n],
        }
        impl MaybeDynSized for $name {
            type Header = TagHeader;
            const BASE_SIZE: usize = 8 + 4 * $n;
            fn dst_len(_: &TagHeader) {}
        }
        impl Tag for $name {
            type IDType = TagType;
            const ID: TagType = TagType::Custom($id);
        }
        impl Family for $name {
            const NAME: &'static str = stringify!($name);
            fn view(&self, base: *const u8) -> View {
                let mut fields = vec![(4usize, self.header.size.to_le_bytes().to_vec())];
                for (i, w) in self.words.iter().enumerate() {
                    fields.push((8 + 4 * i, w.to_le_bytes().to_vec()));
                }
                View { addr_off: rel(self, base), sov: std::mem::size_of_val(self), fields }
            }
        }
    };
}
sized_ty!(Sized0, 0, 0x4000);
sized_ty!(Sized1, 1, 0x4001);
sized_ty!(Sized2, 2, 0x4002);
sized_ty!(Sized3, 3, 0x4003);
sized_ty!(Sized4, 4, 0x4004);
sized_ty!(Sized5, 5, 0x4005);
sized_ty!(Sized6, 6, 0x4006);

macro_rules! dst_ty {
    ($name:ident, $fixed:expr, $elem:ty, $esize:expr, $id:expr) => {
        #[derive(ptr_meta::Pointee)]
        #[repr(C, align(8))]
        struct $name {
            header: TagHeader,
            fixed: [u8; $fixed - 8],
            tail: [$elem],
        }
        impl MaybeDynSized for $name {
            type Header = TagHeader;
            const BASE_SIZE: usize = $fixed;
            fn dst_len(h: &TagHeader) -> usize {
                assert!(h.size as usize >= Self::BASE_SIZE);
                let n = h.size as usize - Self::BASE_SIZE;
                assert_eq!(n % $esize, 0);
                n / $esize
            }
        }
        impl Tag for $name {
            type IDType = TagType;
            const ID: TagType = TagType::Custom($id);
        }
        impl Family for $name {
            const NAME: &'static str = stringify!($name);
            fn view(&self, base: *const u8) -> View {
                let mut fields = vec![(4usize, self.header.size.to_le_bytes().to_vec()), (8usize, self.fixed.to_vec())];
                let tail: &[u8] = unsafe { std::slice::from_raw_parts(self.tail.as_ptr() as *const u8, std::mem::size_of_val(&self.tail)) };
                fields.push(($fixed, tail.to_vec()));
                View { addr_off: rel(self, base), sov: std::mem::size_of_val(self), fields }
            }
        }
    };
}
// element sizes 1, 2, 3, 4, 8, 24; fixed parts 8..24 where the element alignment allows
dst_ty!(D8E1, 8, u8, 1, 0x5000);
dst_ty!(D12E1, 12, u8, 1, 0x5001);
dst_ty!(D16E1, 16, u8, 1, 0x5002);
dst_ty!(D20E1, 20, u8, 1, 0x5003);
dst_ty!(D24E1, 24, u8, 1, 0x5004);
dst_ty!(D8E2, 8, u16, 2, 0x5010);
dst_ty!(D12E2, 12, u16, 2, 0x5011);
dst_ty!(D16E2, 16, u16, 2, 0x5012);
dst_ty!(D20E2, 20, u16, 2, 0x5013);
dst_ty!(D24E2, 24, u16, 2, 0x5014);
dst_ty!(D8E3, 8, [u8; 3], 3, 0x5020);
dst_ty!(D12E3, 12, [u8; 3], 3, 0x5021);
dst_ty!(D16E3, 16, [u8; 3], 3, 0x5022);
dst_ty!(D20E3, 20, [u8; 3], 3, 0x5023);
dst_ty!(D24E3, 24, [u8; 3], 3, 0x5024);
dst_ty!(D8E4, 8, u32, 4, 0x5030);
dst_ty!(D12E4, 12, u32, 4, 0x5031);
dst_ty!(D16E4, 16, u32, 4, 0x5032);
dst_ty!(D20E4, 20, u32, 4, 0x5033);
dst_ty!(D24E4, 24, u32, 4, 0x5034);
dst_ty!(D8E8, 8, u64, 8, 0x5040);
dst_ty!(D16E8, 16, u64, 8, 0x5041);
dst_ty!(D24E8, 24, u64, 8, 0x5042);
dst_ty!(D8E24, 8, [u64; 3], 24, 0x5050);
dst_ty!(D16E24, 16, [u64; 3], 24, 0x5051);
dst_ty!(D24E24, 24, [u64; 3], 24, 0x5052);

// over-aligned user types: a u128 field makes the type 16-aligned
#[repr(C, align(16))]
struct A16Sized {
    header: TagHeader,
    a: u64,
    b: u128,
}
impl MaybeDynSized for A16Sized {
    type Header = TagHeader;
    const BASE_SIZE: usize = 32;
    fn dst_len(_: &TagHeader) {}
}
impl Tag for A16Sized {
    type IDType = TagType;
    const ID: TagType = TagType::Custom(0x6000);
}
impl Family for A16Sized {
    const NAME: &'static str = "A16Sized";
    const ALIGN: usize = 16;
    fn view(&self, base: *const u8) -> View {
        View { addr_off: rel(self, base), sov: std::mem::size_of_val(self), fields: vec![(4, self.header.size.to_le_bytes().to_vec()), (8, self.a.to_le_bytes().to_vec()), (16, self.b.to_le_bytes().to_vec())] }
    }
}
#[derive(ptr_meta::Pointee)]
#[repr(C, align(16))]
struct A16Dst {
    header: TagHeader,
    wide: u128,
    tail: [u8],
}
impl MaybeDynSized for A16Dst {
    type Header = TagHeader;
    const BASE_SIZE: usize = 32;
    fn dst_len(h: &TagHeader) -> usize {
        assert!(h.size as usize >= Self::BASE_SIZE);
        h.size as usize - Self::BASE_SIZE
    }
}
impl Tag for A16Dst {
    type IDType = TagType;
    const ID: TagType = TagType::Custom(0x6001);
}
impl Family for A16Dst {
    const NAME: &'static str = "A16Dst";
    const ALIGN: usize = 16;
    fn view(&self, base: *const u8) -> View {
        View { addr_off: rel(self, base), sov: std::mem::size_of_val(self), fields: vec![(4, self.header.size.to_le_bytes().to_vec()), (16, self.wide.to_le_bytes().to_vec()), (32, self.tail.to_vec())] }
    }
}

// types whose alignment is below the header's 8 (plain u32 / u16 fields, packed): their size need not be a multiple of 8
macro_rules! low_sized {
    ($name:ident, $repr:meta, $tail:ty, $base:expr, $id:expr) => {
        #[$repr]
        struct $name {
            typ: u32,
            size: u32,
            rest: $tail,
        }
        impl MaybeDynSized for $name {
            type Header = TagHeader;
            const BASE_SIZE: usize = $base;
            fn dst_len(_: &TagHeader) {}
        }
        impl Tag for $name {
            type IDType = TagType;
            const ID: TagType = TagType::Custom($id);
        }
        impl Family for $name {
            const NAME: &'static str = stringify!($name);
            fn view(&self, base: *const u8) -> View {
                let size = unsafe { std::ptr::read_unaligned(std::ptr::addr_of!(self.size)) };
                let rest: &[u8] = unsafe { std::slice::from_raw_parts(std::ptr::addr_of!(self.rest) as *const u8, std::mem::size_of::<$tail>()) };
                View { addr_off: rel(self, base), sov: std::mem::size_of_val(self), fields: vec![(4, size.to_le_bytes().to_vec()), (8, rest.to_vec())] }
            }
        }
    };
}
low_sized!(L4S12, repr(C), u32, 12, 0x7000);
low_sized!(L4S20, repr(C), [u32; 3], 20, 0x7001);
low_sized!(L2S10, repr(C, packed(2)), u16, 10, 0x7002);
low_sized!(L1S9, repr(C, packed), u8, 9, 0x7003);
low_sized!(L1S15, repr(C, packed), [u8; 7], 15, 0x7004);
low_sized!(L1S16, repr(C, packed), [u8; 8], 16, 0x7005);
low_sized!(L4S16, repr(C), [u32; 2], 16, 0x7006);

macro_rules! low_dst {
    ($name:ident, $fixedw:expr, $elem:ty, $esize:expr, $id:expr, $sat:expr) => {
        #[derive(ptr_meta::Pointee)]
        #[repr(C)]
        struct $name {
            typ: u32,
            size: u32,
            fixed: [u32; $fixedw],
            tail: [$elem],
        }
        impl MaybeDynSized for $name {
            type Header = TagHeader;
            const BASE_SIZE: usize = 8 + 4 * $fixedw;
            fn dst_len(h: &TagHeader) -> usize {
                if $sat {
                    // a "forgiving" element count: zero elements when the tag does not even cover the fixed part
                    (h.size as usize).saturating_sub(Self::BASE_SIZE) / $esize
                } else {
                    assert!(h.size as usize >= Self::BASE_SIZE);
                    let n = h.size as usize - Self::BASE_SIZE;
                    assert_eq!(n % $esize, 0);
                    n / $esize
                }
            }
        }
        impl Tag for $name {
            type IDType = TagType;
            const ID: TagType = TagType::Custom($id);
        }
        impl Family for $name {
            const NAME: &'static str = stringify!($name);
            fn view(&self, base: *const u8) -> View {
                let tail: &[u8] = unsafe { std::slice::from_raw_parts(self.tail.as_ptr() as *const u8, std::mem::size_of_val(&self.tail)) };
                View { addr_off: rel(self, base), sov: std::mem::size_of_val(self), fields: vec![(4, self.size.to_le_bytes().to_vec()), (8 + 4 * $fixedw, tail.to_vec())] }
            }
        }
    };
}
low_dst!(L4D12E1, 1, u8, 1, 0x7100, false);
low_dst!(L4D12E1Sat, 1, u8, 1, 0x7101, true);
low_dst!(L4D8E4, 0, u32, 4, 0x7102, false);
low_dst!(L4D16E2Sat, 2, u16, 2, 0x7103, true);

fn judge(ctx: &mut Ctx, name: &'static str, seam: &'static str, size: usize, img: &[u8], r: Out<View>) {
    match r {
        Out::Panic => {
            ctx.ob("cast.panic", 1);
            ctx.class("cast:panic");
        }
        Out::Val(v) => {
            ctx.ob("cast.sov", v.sov as u64);
            if v.addr_off != 0 || v.sov != round8(size) {
                ctx.violation(&format!("c15/view-size/{}/{}", seam, name), || format!("viewing a tag of size {} as {}: reference at offset {} with size_of_val {}; must be the tag's address and {} (or a panic)", size, name, v.addr_off, v.sov, round8(size)));
                return;
            }
            for (off, bytes) in &v.fields {
                ctx.tx.bytes(bytes);
                if off + bytes.len() > img.len() || img[*off..off + bytes.len()] != bytes[..] {
                    ctx.violation(&format!("c15/aliasing/{}/{}", seam, name), || format!("{} on a tag of size {}: the field at offset {} ({} bytes) does not alias the tag's bytes", name, size, off, bytes.len()));
                    return;
                }
            }
            ctx.class("cast:view");
        }
    }
}

// ---- user-defined *header* kinds (12 bytes, alignment 4; 4 bytes) with tag types on top of them
macro_rules! user_header {
    ($name:ident, { $($field:ident : $t:ty),* }) => {
        #[derive(Clone, PartialEq, Eq, Debug)]
        #[repr(C)]
        struct $name { $($field: $t),* }
        impl multiboot2_common::Header for $name {
            fn payload_len(&self) -> usize {
                (self.size as usize).saturating_sub(std::mem::size_of::<Self>())
            }
            fn total_size(&self) -> usize {
                self.size as usize
            }
            fn set_size(&mut self, total_size: usize) {
                self.size = total_size as u32;
            }
        }
    };
}
user_header!(UH12, { typ: u32, size: u32, flags: u32 });
user_header!(UH4, { size: u32 });

trait UFamily: MaybeDynSized {
    const NAME: &'static str;
    const HDR: usize;
    const SIZE_OFF: usize;
    fn sov(&self) -> usize;
    fn last_field(&self) -> u32;
}
macro_rules! usized_ty {
    ($name:ident, $h:ty, $hdr:expr, $size_off:expr, $n:expr) => {
        usized_ty!($name, $h, $hdr, $size_off, $n, align(8));
    };
    ($name:ident, $h:ty, $hdr:expr, $size_off:expr, $n:expr, $($al:tt)*) => {
        #[repr(C, $($al)*)]
        struct $name {
            header: $h,
            words: [u32; $n],
        }
        impl MaybeDynSized for $name {
            type Header = $h;
            const BASE_SIZE: usize = $hdr + 4 * $n;
            fn dst_len(_: &$h) {}
        }
        impl UFamily for $name {
            const NAME: &'static str = stringify!($name);
            const HDR: usize = $hdr;
            const SIZE_OFF: usize = $size_off;
            fn sov(&self) -> usize {
                std::mem::size_of_val(self)
            }
            fn last_field(&self) -> u32 {
                self.words.last().copied().unwrap_or(self.header.size)
            }
        }
    };
}
usized_ty!(U12W0, UH12, 12, 4, 0);
usized_ty!(U12W1, UH12, 12, 4, 1);
usized_ty!(U12W2, UH12, 12, 4, 2);
usized_ty!(U12W3, UH12, 12, 4, 3);
usized_ty!(U12W4, UH12, 12, 4, 4);
usized_ty!(U12W5, UH12, 12, 4, 5);
usized_ty!(U4W0, UH4, 4, 0, 0);
usized_ty!(U4W1, UH4, 4, 0, 1);
usized_ty!(U4W2, UH4, 4, 0, 2);
usized_ty!(U4W3, UH4, 4, 0, 3);
usized_ty!(U4W5, UH4, 4, 0, 5);
// the same with the natural alignment of 4 (sizes 12 + 4n / 4 + 4n, half of them not multiples of 8)
usized_ty!(N12W0, UH12, 12, 4, 0, align(4));
usized_ty!(N12W1, UH12, 12, 4, 1, align(4));
usized_ty!(N12W2, UH12, 12, 4, 2, align(4));
usized_ty!(N12W3, UH12, 12, 4, 3, align(4));
usized_ty!(N12W4, UH12, 12, 4, 4, align(4));
usized_ty!(N4W0, UH4, 4, 0, 0, align(4));
usized_ty!(N4W1, UH4, 4, 0, 1, align(4));
usized_ty!(N4W2, UH4, 4, 0, 2, align(4));
usized_ty!(N4W4, UH4, 4, 0, 4, align(4));

fn ufamily<T: UFamily>(ctx: &mut Ctx, arena: &Arena)
where
    T::Header: multiboot2_common::Header,
{
    for (size, zero) in (T::HDR..=48).map(|s| (s, false)).chain((T::HDR..=48).map(|s| (s, true))) {
        let mut img = vec![0u8; round8(size).max(8)];
        for i in 0..img.len() {
            img[i] = if zero { 0 } else { marker(i, 67) };
        }
        wr32(&mut img, T::SIZE_OFF, size as u32);
        let describe = || J::obj().set("seam", "cast (user-defined header)").set("type", T::NAME).set("tag_size", size).set("all_zero", zero).set("tag", J::hex(&img));
        ctx.leaf(describe, |ctx| {
            ctx.state_direct();
            ctx.nontrivial();
            ctx.under_fills(&format!("c15/o5/{}", T::NAME), |ctx, fill| {
                arena.fill(fill);
                let p = arena.place_right(&img);
                let slice: &[u8] = unsafe { std::slice::from_raw_parts(p, img.len()) };
                let Out::Val(Ok(g)) = ctx.call("ref_from_slice", || DynSizedStructure::<T::Header>::ref_from_slice(slice)) else {
                    ctx.class("ucast:refused-by-ref_from_slice");
                    return;
                };
                let r = ctx.call("cast", || {
                    let t = g.cast::<T>();
                    (rel(t, p), t.sov(), t.last_field())
                });
                match r {
                    Out::Panic => ctx.class("ucast:panic"),
                    Out::Val((0, sov, _)) if sov == round8(size) => ctx.class("ucast:view"),
                    Out::Val((off, sov, _)) => ctx.violation(&format!("c15/view-size/user-header/{}", T::NAME), || format!("viewing a structure of size {} (user-defined header of {} bytes) as {}: reference at offset {} with size_of_val {}; must be the structure's address and {} (or a panic)", size, T::HDR, T::NAME, off, sov, round8(size))),
                }
            });
        });
    }
}

fn family<T: Family + ?Sized>(ctx: &mut Ctx, arena: &Arena, max: usize) {
    let id = u32::from(T::ID);
    // size words below the tag header's own 8 bytes: whatever view comes back has to have the tag's padded size too
    // (0 for a size word of 0, 8 for 1..=7) - or the cast is refused
    for size in 0..8usize {
        let mut img = vec![0u8; 8];
        wr32(&mut img, 0, id);
        wr32(&mut img, 4, size as u32);
        let describe = || J::obj().set("seam", "cast").set("type", T::NAME).set("tag_size", size).set("tag", J::hex(&img));
        ctx.leaf(describe, |ctx| {
            ctx.state_direct();
            ctx.nontrivial();
            arena.fill(arena::FILL_A);
            let p = arena.place_at((arena.len() - 8) & !(T::ALIGN - 1), &img);
            let slice: &[u8] = unsafe { std::slice::from_raw_parts(p, 8) };
            let Out::Val(Ok(g)) = ctx.call("ref_from_slice", || Generic::ref_from_slice(slice)) else {
                ctx.class("cast:refused-by-ref_from_slice");
                return;
            };
            let r = ctx.call("cast", || g.cast::<T>().view(p));
            judge(ctx, T::NAME, "cast", size, &img, r);
        });
    }
    // payloads: marker bytes, and end-tag images throughout (every 8-byte word reads (type 0, size 8))
    // ... and all-zero and all-ones payloads (a "reserved, zeroed" or "erased" trailing unit must not relax the cast)
    for (size, mode) in (0u8..4).flat_map(|m| (8..=max).map(move |s| (s, m))) {
        let content = ["marker bytes", "end-tag images", "all zero", "all ones"][mode as usize];
        let mut img = vec![0u8; round8(size)];
        for i in 0..img.len() {
            img[i] = match mode {
                1 => [0u8, 0, 0, 0, 8, 0, 0, 0][i % 8],
                2 => 0,
                3 => 0xFF,
                _ => marker(i, 71),
            };
        }
        wr32(&mut img, 0, id);
        wr32(&mut img, 4, size as u32);
        // tag-level: ref_from_slice + cast, flush against the guard page
        let describe = || J::obj().set("seam", "cast").set("type", T::NAME).set("tag_size", size).set("payload_content", content).set("tag", J::hex(&img));
        ctx.leaf(describe, |ctx| {
            ctx.state_direct();
            ctx.nontrivial();
            ctx.under_fills(&format!("c15/o5/{}", T::NAME), |ctx, fill| {
                arena.fill(fill);
                // as close to the guard page as the type's alignment permits
                let p = arena.place_at((arena.len() - img.len()) & !(T::ALIGN - 1), &img);
                let slice: &[u8] = unsafe { std::slice::from_raw_parts(p, img.len()) };
                let g = Generic::ref_from_slice(slice).unwrap();
                let r = ctx.call("cast", || g.cast::<T>().view(p));
                judge(ctx, T::NAME, "cast", size, &img, r);
            });
        });
        // the same tag taken from a slice that goes on behind it (8, 16, 24 bytes of a neighbour): the view is the tag's
        for slack in [8usize, 16, 24] {
            let mut long = img.clone();
            long.extend((0..slack).map(|i| marker(i, 77)));
            let describe = || J::obj().set("seam", "cast-from-longer-slice").set("type", T::NAME).set("tag_size", size).set("payload_content", content).set("slack", slack).set("slice", J::hex(&long));
            ctx.leaf(describe, |ctx| {
                ctx.state_direct();
                ctx.nontrivial();
                arena.fill(arena::FILL_A);
                let p = arena.place_at((arena.len() - long.len()) & !(T::ALIGN - 1), &long);
                let slice: &[u8] = unsafe { std::slice::from_raw_parts(p, long.len()) };
                let Out::Val(Ok(g)) = ctx.call("ref_from_slice", || Generic::ref_from_slice(slice)) else {
                    ctx.violation("c15/longer-slice/refused", || format!("ref_from_slice refused a slice of {} bytes holding a tag of size {}", long.len(), size));
                    return;
                };
                let r = ctx.call("cast", || g.cast::<T>().view(p));
                judge(ctx, T::NAME, "cast-from-longer-slice", size, &long, r);
            });
        }
        // region-level: BootInformation::get_tag::<T>()
        let region = bi::region(&[bi::sample(bi::MEMINFO, 1, 0), img[..size].to_vec(), bi::end_tag()], &|_, k| img.get(size + k).copied().unwrap_or(0));
        let describe = || J::obj().set("seam", "get_tag").set("type", T::NAME).set("tag_size", size).set("payload_content", content).set("region", J::hex(&region));
        ctx.leaf(describe, |ctx| {
            ctx.state_direct();
            ctx.nontrivial();
            arena.fill(arena::FILL_A);
            // the tag sits at region offset 24: choose the region's address so that the tag has the type's alignment
            let off = ((arena.len() - region.len() - 32) & !(T::ALIGN - 1)) + (T::ALIGN - 8);
            let p = arena.place_at(off, &region);
            let Out::Val(Ok(bi)) = ctx.call("load", || unsafe { BootInformation::load(p as *const BootInformationHeader) }) else {
                ctx.violation("c15/region-load", || "load failed".into());
                return;
            };
            let tp = unsafe { p.add(8 + 16) };
            let r = ctx.call("get_tag", || bi.get_tag::<T>().map(|t| t.view(tp)));
            match r {
                Out::Val(None) => ctx.violation(&format!("c15/get_tag-none/{}", T::NAME), || "get_tag returned nothing for a tag of the type's ID".into()),
                Out::Val(Some(v)) => judge(ctx, T::NAME, "get_tag", size, &img, Out::Val(v)),
                Out::Panic => judge(ctx, T::NAME, "get_tag", size, &img, Out::Panic),
            }
        });
    }
}

/// Tags that are larger than the type by (about) a multiple of 64 KiB / 1 MiB: the size comparison in full width.
fn family_large<T: Family + ?Sized>(ctx: &mut Ctx, arena: &Arena) {
    let id = u32::from(T::ID);
    let b = T::BASE_SIZE;
    for size in [65536 + b - 8, 65536 + b, 65536 + b + 8, 65536 + b + 1, 131072 + b, (1 << 20) + b, (1 << 20) + b + 8] {
        let mut img = vec![0u8; round8(size)];
        for i in 0..img.len() {
            img[i] = marker(i, 71);
        }
        wr32(&mut img, 0, id);
        wr32(&mut img, 4, size as u32);
        let describe = || J::obj().set("seam", "cast-large").set("type", T::NAME).set("tag_size", size);
        ctx.leaf(describe, |ctx| {
            ctx.state_direct();
            ctx.nontrivial();
            arena.fill(arena::FILL_A);
            let p = arena.place_at((arena.len() - img.len()) & !(T::ALIGN - 1), &img);
            let slice: &[u8] = unsafe { std::slice::from_raw_parts(p, img.len()) };
            let g = Generic::ref_from_slice(slice).unwrap();
            let r = ctx.call("cast", || g.cast::<T>().view(p));
            judge(ctx, T::NAME, "cast-large", size, &img, r);
        });
    }
}

/// A type that is 4 GiB larger than any tag: the size comparison must not be done in 32 bits. (No such object is
/// ever created or read: only the reference and its size are looked at.)
#[repr(C, align(8))]
struct Huge4G {
    header: TagHeader,
    window: [u8; 1 << 32],
}
impl MaybeDynSized for Huge4G {
    type Header = TagHeader;
    const BASE_SIZE: usize = 8 + (1 << 32);
    fn dst_len(_: &TagHeader) {}
}
impl Tag for Huge4G {
    type IDType = TagType;
    const ID: TagType = TagType::Custom(0x7200);
}
impl Family for Huge4G {
    const NAME: &'static str = "Huge4G";
    fn view(&self, base: *const u8) -> View {
        View { addr_off: rel(self, base), sov: std::mem::size_of_val(self), fields: vec![(4, self.header.size.to_le_bytes().to_vec())] }
    }
}

fn run(ctx: &mut Ctx) {
    let arena = Arena::new(2);
    let max = if ctx.quick() { 96 } else { 512 };
    ctx.bound("family", format!("user-defined tag types following the MaybeDynSized contract: sized with 0..=6 extra u32 words; DSTs with element sizes 1,2,3,4,8,24 and fixed parts 8,12,16,20,24 (where the element alignment allows): 33 types with alignment 8 plus two 16-aligned ones (a u128 field; tags placed at 16-aligned addresses) x every tag size 0..={} (payload: marker bytes, end-tag images in every 8-byte word, all zero, all ones); via cast (tag flush against a guard page, fills A/B) and via BootInformation::get_tag", max));
    macro_rules! fam { ($($t:ty),*) => { $( family::<$t>(ctx, &arena, max); )* } }
    fam!(Sized0, Sized1, Sized2, Sized3, Sized4, Sized5, Sized6);
    fam!(D8E1, D12E1, D16E1, D20E1, D24E1, D8E2, D12E2, D16E2, D20E2, D24E2, D8E3, D12E3, D16E3, D20E3, D24E3);
    fam!(D8E4, D12E4, D16E4, D20E4, D24E4, D8E8, D16E8, D24E8, D8E24, D16E24, D24E24);
    fam!(A16Sized, A16Dst);
    ctx.bound("low_alignment", "7 sized types with alignment 4 / 2 / 1 (sizes 12, 20, 10, 9, 15, 16, 16) and 4 DSTs with alignment 4 (fixed parts 8, 12, 16; element sizes 1, 2, 4; two of them with a saturating element count), same tag sizes and seams: a type whose size is not a multiple of 8 can never have the tag's padded size, so every such cast must panic");
    fam!(L4S12, L4S20, L2S10, L1S9, L1S15, L1S16, L4S16, L4D12E1, L4D12E1Sat, L4D8E4, L4D16E2Sat);
    ctx.bound("large_differences", "a sized type of 8 + 4 GiB bytes on every small tag size (only the reference and its size are looked at); for the sized types and three DSTs, tags of FIXED + 64 KiB (-8, +0, +1, +8), + 128 KiB, + 1 MiB (+0, +8): the cast must panic unless the sizes agree exactly");
    fam!(Huge4G);
    {
        let big = Arena::new(300);
        macro_rules! faml { ($($t:ty),*) => { $( family_large::<$t>(ctx, &big); )* } }
        faml!(Sized0, Sized1, Sized2, Sized3, Sized4, Sized5, Sized6, D8E1, D16E8, D12E4, A16Sized, L4S12);
    }
    ctx.bound("user_headers", "user-defined header kinds of 12 bytes (type, size, flags; alignment 4) and 4 bytes (size only) with sized tag types of 0..=5 extra words on top (8-aligned, and with their natural alignment of 4): every structure size from the header size to 48 (marker bytes, and all zero); via ref_from_slice + cast, flush against a guard page, fills A/B");
    macro_rules! ufam { ($($t:ty),*) => { $( ufamily::<$t>(ctx, &arena); )* } }
    ufam!(U12W0, U12W1, U12W2, U12W3, U12W4, U12W5, U4W0, U4W1, U4W2, U4W3, U4W5, N12W0, N12W1, N12W2, N12W3, N12W4, N4W0, N4W1, N4W2, N4W4);
    // built-in kinds x all sizes
    ctx.bound("builtin", format!("all 22 built-in kinds x every tag size 8..={} (VBE: 8..=800): cast gives a view of exactly the tag's padded size or panics", max));
    for kind in 0..=21u32 {
        let top = if kind == bi::VBE { 800 } else { max };
        let base = bi::sample(kind, 1, 1);
        for size in 8..=top {
            let mut img = base.clone();
            img.resize(round8(size).max(8), 0);
            for i in base.len().min(img.len())..img.len() {
                img[i] = marker(i, 73);
            }
            img.truncate(round8(size));
            wr32(&mut img, 4, size as u32);
            if kind == bi::ELF && img.len() >= 12 {
                wr32(&mut img, 8, 0); // no sections to walk: this check is about the cast only
            }
            let describe = || J::obj().set("seam", "cast").set("type", bi::kind_name(kind)).set("tag_size", size);
            ctx.leaf(describe, |ctx| {
                ctx.state_direct();
                ctx.nontrivial();
                let p = arena.put(&img, true, arena::FILL_B);
                let slice: &[u8] = unsafe { std::slice::from_raw_parts(p, img.len()) };
                let g = Generic::ref_from_slice(slice).unwrap();
                let recs = {
                    let mut b = Bat::new(ctx, p);
                    b.debug = false;
                    battery::tag_level(&mut b, kind, g, BatOpts { vbe_memory_model: true, elf_names: false });
                    b.recs
                };
                let cast = recs.iter().find(|r| r.name == "cast").map(|r| r.val.clone());
                let sov = recs.iter().find(|r| r.name == "size_of_val").map(|r| r.val.clone());
                match (cast, sov) {
                    (Some(Val::Panic), _) => ctx.class("cast:panic"),
                    (Some(Val::U(0)), Some(Val::U(s))) if s as usize == round8(size) => ctx.class("cast:view"),
                    (c, s) => ctx.violation(&format!("c15/view-size/cast/{}", bi::kind_name(kind)), || format!("viewing a tag of size {} as {}: cast {:?}, size_of_val {:?}; must be offset 0 and {}", size, bi::kind_name(kind), c, s, round8(size))),
                }
            });
        }
    }
    // the named getters of the boot information are casts too: each hands out a view of a tag of its own type only
    ctx.bound("named_getters", format!("regions [one tag of built-in kind K, size 8..={} (VBE: 8..=800); SMBIOS additionally with tables that are 32- and 64-bit entry-point structures][end tag] x all 22 named getters: the getter of kind K panics or returns the tag's address with a view of exactly its padded size; every other getter returns nothing or panics (the end-tag getter returns the end tag, 8 bytes)", max));
    let rarena = Arena::new(3);
    // (kind, base image): the marker samples, and SMBIOS tags whose tables are real entry-point structures (contents
    // that carry their own length)
    let mut getter_bases: Vec<(u32, Vec<u8>)> = (1..=21u32).map(|k| (k, bi::sample(k, 1, 1))).collect();
    for img in bi::smbios_entry_points() {
        getter_bases.push((bi::SMBIOS, img));
    }
    for (kind, base) in getter_bases {
        let top = if kind == bi::VBE { 800 } else { max };
        for size in 8..=top {
            let mut img = base.clone();
            img.resize(round8(size).max(8), 0);
            for i in base.len().min(img.len())..img.len() {
                img[i] = marker(i, 73);
            }
            img.truncate(round8(size));
            wr32(&mut img, 4, size as u32);
            if kind == bi::ELF && img.len() >= 12 {
                wr32(&mut img, 8, 0);
            }
            let mut region = vec![0u8; 8];
            region.extend_from_slice(&img);
            region.extend_from_slice(&[0, 0, 0, 0, 8, 0, 0, 0]);
            let n = region.len() as u32;
            wr32(&mut region, 0, n);
            let describe = || J::obj().set("seam", "named getters").set("type", bi::kind_name(kind)).set("tag_size", size);
            ctx.leaf(describe, |ctx| {
                ctx.state_direct();
                ctx.nontrivial();
                rarena.fill(arena::FILL_B);
                let p = rarena.place_right(&region);
                let Out::Val(Ok(b)) = ctx.call("load", || unsafe { multiboot2::BootInformation::load(p as *const multiboot2::BootInformationHeader) }) else {
                    ctx.violation("c15/region-load", || "load failed on a well-formed region".into());
                    return;
                };
                for g in 0..=21u32 {
                    let recs = {
                        let mut bat = Bat::new(ctx, p);
                        bat.debug = false;
                        bat.derived = false;
                        battery::getter_level(&mut bat, g, &b, p, BatOpts { vbe_memory_model: true, elf_names: false });
                        bat.recs
                    };
                    let get = recs.iter().find(|r| r.name == "getter").map(|r| r.val.clone());
                    let sov = recs.iter().find(|r| r.name == "size_of_val").map(|r| r.val.clone());
                    let ok = if g == kind {
                        match (&get, &sov) {
                            (Some(Val::Panic), _) => true,
                            (Some(Val::U(8)), Some(Val::U(s))) => *s as usize == round8(size),
                            (Some(Val::U(8)), Some(Val::Panic)) => true,
                            // the framebuffer getter reports an unknown type byte as an error value
                            (Some(Val::E(e)), _) => kind == bi::FRAMEBUFFER && *e >= 0x100,
                            _ => false,
                        }
                    } else if g == bi::END {
                        matches!((&get, &sov), (Some(Val::U(o)), Some(Val::U(8))) if *o as usize == 8 + round8(size))
                    } else {
                        // a getter may refuse by panicking (the EFI map getter looks at the boot-services tag first)
                        matches!(get, Some(Val::E(0)) | Some(Val::Panic))
                    };
                    if !ok {
                        ctx.violation(&format!("c15/view-size/getter/{}", bi::kind_name(g)), || format!("region with one {} tag of size {}: the {} getter gives offset {:?}, size_of_val {:?}; must be {}", bi::kind_name(kind), size, bi::kind_name(g), get, sov, if g == kind { format!("a panic or offset 8 and {}", round8(size)) } else { "nothing".into() }));
                    }
                }
                ctx.class("getters:walked");
            });
        }
    }
    // the header crate's named getters are casts of the same kind
    ctx.bound("header_named_getters", "headers [one header tag of kind K (1..=10), flags in {required, optional}, size 8..=72][end tag] x all 10 named getters of Multiboot2Header: the getter of kind K panics or returns the tag's address with a view of exactly its padded size; every other getter returns nothing or panics");
    for kind in 1..=10u16 {
        for flags in [0u16, 1] {
            for size in 8..=72usize {
                let base = hd::sample(kind, flags as u32, 2);
                let mut img = base.clone();
                img.resize(round8(size).max(8), 0);
                for i in base.len().min(img.len())..img.len() {
                    img[i] = marker(i, 41);
                }
                img.truncate(round8(size));
                wr16(&mut img, 2, flags);
                wr32(&mut img, 4, size as u32);
                let h = hd::header(0, &[img, hd::end_tag()], 0xF7);
                let describe = || J::obj().set("seam", "header named getters").set("type", hd::kind_name(kind)).set("flags", flags).set("tag_size", size).set("header", J::hex(&h));
                ctx.leaf(describe, |ctx| {
                    ctx.state_direct();
                    ctx.nontrivial();
                    rarena.fill(arena::FILL_B);
                    let p = rarena.place_right(&h);
                    let Out::Val(Ok(hdr)) = ctx.call("load", || unsafe { multiboot2_header::Multiboot2Header::load(p as *const multiboot2_header::Multiboot2BasicHeader) }) else {
                        ctx.violation("c15/header-load", || "load failed on a header with valid words".into());
                        return;
                    };
                    for g in 1..=10u16 {
                        let recs = {
                            let mut bat = Bat::new(ctx, p);
                            bat.debug = false;
                            mbvlib::hbattery::getter_level(&mut bat, g, &hdr, p);
                            bat.recs
                        };
                        let get = recs.iter().find(|r| r.name == "getter").map(|r| r.val.clone());
                        let sov = recs.iter().find(|r| r.name == "size_of_val").map(|r| r.val.clone());
                        let ok = if g == kind {
                            match (&get, &sov) {
                                (Some(Val::Panic), _) => true,
                                (Some(Val::U(16)), Some(Val::U(s))) => *s as usize == round8(size),
                                (Some(Val::U(16)), Some(Val::Panic)) => true,
                                _ => false,
                            }
                        } else {
                            matches!(get, Some(Val::E(0)) | Some(Val::Panic))
                        };
                        if !ok {
                            ctx.violation(&format!("c15/view-size/header-getter/{}", hd::kind_name(g)), || format!("header with one {} tag (flags {}) of size {}: the {} getter gives offset {:?}, size_of_val {:?}; must be {}", hd::kind_name(kind), flags, size, hd::kind_name(g), get, sov, if g == kind { format!("a panic or offset 16 and {}", round8(size)) } else { "nothing".into() }));
                        }
                    }
                    ctx.class("header-getters:walked");
                });
            }
        }
    }
}

fn main() {
    main_wrap("C15", run);
}
