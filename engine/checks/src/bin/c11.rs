//! C11 - header accessors and typed getters decode the specified fields.
use mbvlib::battery::Bat;
use mbvlib::hbattery::{self, Rec, Val};
use mbvlib::spec::hd;
use mbvlib::spec::*;
use mbvlib::*;
use multiboot2_header::{Multiboot2BasicHeader, Multiboot2Header};

const PERT: [u8; 10] = [0x00, 0x01, 0x02, 0x04, 0x08, 0x10, 0x20, 0x40, 0x80, 0xFF];

fn legal(kind: u16, img: &[u8], p: usize, v: u8) -> bool {
    let mut t = img.to_vec();
    t[p] = v;
    match kind {
        hd::CONSOLE if (8..12).contains(&p) => rd32(&t, 8) <= 1,
        hd::RELOCATABLE if (20..24).contains(&p) => rd32(&t, 20) <= 2,
        _ => true,
    }
}

fn first_diff(actual: &[Rec], expected: &[Rec]) -> Option<(usize, String)> {
    let a: Vec<&Rec> = actual.iter().filter(|r| !r.name.contains("Debug")).collect();
    for i in 0..a.len().max(expected.len()) {
        match (a.get(i), expected.get(i)) {
            (Some(x), Some(y)) if *x == y => {}
            (x, y) => return Some((i, format!("record #{}: got {:?}, reference {:?}", i, x, y))),
        }
    }
    None
}

fn first_of(h: &[u8], typ: u16) -> Option<usize> {
    let len = rd32(h, 8) as usize;
    let (items, _) = hwalk(&h[16..len]);
    items.iter().find(|i| i.typ == typ).map(|i| i.off + 16)
}

fn check(ctx: &mut Ctx, part: &'static str, what: &str, actual: &[Rec], expected: &[Rec]) {
    match first_diff(actual, expected) {
        None => ctx.class("decoded"),
        Some((i, msg)) => {
            let name = actual.iter().filter(|r| !r.name.contains("Debug")).nth(i).map(|r| r.name).or(expected.get(i).map(|r| r.name)).unwrap_or("?");
            ctx.violation(&format!("c11/{}/{}/{}", part, what, name), || format!("{}: {}", what, msg));
        }
    }
}

/// Load the header, run header words + walk + the getters in `kinds`.
fn exec(ctx: &mut Ctx, arena: &Arena, h: &[u8], kinds: &[u16], part: &'static str) {
    arena.fill(arena::FILL_A);
    let p = arena.place_right(h);
    let Out::Val(Ok(hd_)) = ctx.call("load", || unsafe { Multiboot2Header::load(p as *const Multiboot2BasicHeader) }) else {
        ctx.violation(&format!("c11/{}/load", part), || "load failed on a valid header".into());
        return;
    };
    // the header's own four words
    let recs = {
        let mut b = Bat::new(ctx, p);
        hbattery::header_words(&mut b, &hd_);
        b.recs
    };
    mbvlib::battery::feed(ctx, &recs);
    let want = vec![
        Rec { name: "header_magic", val: Val::U(rd32(h, 0) as u64) },
        Rec { name: "arch", val: Val::U(rd32(h, 4) as u64) },
        Rec { name: "length", val: Val::U(rd32(h, 8) as u64) },
        Rec { name: "checksum", val: Val::U(rd32(h, 12) as u64) },
        Rec { name: "verify_checksum", val: Val::U(1) },
    ];
    check(ctx, part, "header", &recs, &want);
    // the tag walk
    let len = rd32(h, 8) as usize;
    let (items, refuse) = hwalk(&h[16..len]);
    let recs = {
        let mut b = Bat::new(ctx, p);
        hbattery::walk(&mut b, &hd_, p, len / 8 + 2);
        b.recs
    };
    mbvlib::battery::feed(ctx, &recs);
    let mut want = vec![];
    for it in &items {
        let o = 16 + it.off;
        want.push(Rec { name: "iter.next", val: Val::S { off: o as i64, len: round8(it.size), hash: 0 } });
        want.push(Rec { name: "tag.typ", val: Val::U(it.typ as u64) });
        want.push(Rec { name: "tag.flags", val: Val::U(it.flags as u64) });
        want.push(Rec { name: "tag.size", val: Val::U(it.size as u64) });
        want.push(Rec { name: "tag.payload", val: Val::S { off: o as i64 + 8, len: it.size - 8, hash: hash::hash_bytes(&h[o + 8..o + it.size]) } });
    }
    want.push(Rec { name: "iter.next", val: if refuse { Val::Panic } else { Val::E(0) } });
    check(ctx, part, "walk", &recs, &want);
    // the end tag has no getter: cast every walked tag of type 0 and read it through the typed accessors
    if !refuse {
        for it in items.iter().filter(|i| i.typ == 0 && i.size == 8) {
            let o = 16 + it.off;
            let r = ctx.call("cast::<EndHeaderTag> + accessors", || {
                hd_.iter().find(|t| (*t) as *const multiboot2_common::DynSizedStructure<multiboot2_header::HeaderTagHeader> as *const u8 as usize == p as usize + o).map(|t| {
                    let e = t.cast::<multiboot2_header::EndHeaderTag>();
                    (e.typ() as u16, e.flags() as u16, e.size())
                })
            });
            match r {
                Out::Val(Some(got)) if got == (0, it.flags, 8) => ctx.class("decoded"),
                other => ctx.violation(&format!("c11/{}/End/accessors", part), || format!("end tag at offset {}: typed accessors give (type, flags, size) = {:?}, stored (0, {}, 8)", o, other.val(), it.flags)),
            }
        }
    }
    // adapters the iterator type may override
    if !refuse {
        let wanto: Vec<usize> = items.iter().map(|i| 16 + i.off).collect();
        let b0 = p as usize;
        let r = ctx.call("iter adapters", || {
            let off = |t: &multiboot2_common::DynSizedStructure<multiboot2_header::HeaderTagHeader>| t as *const _ as *const u8 as usize - b0;
            let cnt = hd_.iter().count();
            let last = hd_.iter().last().map(off);
            let (lo, hi) = hd_.iter().size_hint();
            let nths: Vec<Option<usize>> = (0..=wanto.len().min(6) + 1).map(|k| hd_.iter().nth(k).map(off)).collect();
            let skips: Vec<Option<usize>> = (0..=wanto.len().min(6) + 1).map(|k| hd_.iter().skip(k).next().map(off)).collect();
            let mut a = hd_.iter();
            let first = a.next().map(off);
            let c = a.clone();
            let ra: Vec<usize> = a.by_ref().map(off).collect();
            let rc: Vec<usize> = c.map(off).collect();
            let after = a.next().is_some();
            // a drained handle stays drained for every adapter; after one next() the adapters see the rest
            let drained = (a.clone().last().is_none(), a.clone().count(), a.clone().nth(0).is_none());
            let mut b = hd_.iter();
            let _ = b.next();
            let rest1 = (b.clone().count(), b.clone().last().map(off), b.fold(0usize, |x, _| x + 1));
            (cnt, last, lo, hi, nths, skips, first, ra, rc, after, drained, rest1)
        });
        match r {
            Out::Panic => ctx.violation(&format!("c11/{}/adapters/spurious-panic", part), || "count/last/size_hint/nth/skip/clone panicked on a well-formed header".into()),
            Out::Val((cnt, last, lo, hi, nths, skips, first, ra, rc, after, drained, rest1)) => {
                let n = wanto.len();
                let mut bad = vec![];
                if cnt != n { bad.push(format!("count() = {}", cnt)); }
                if last != wanto.last().copied() { bad.push(format!("last() = {:?}", last)); }
                if lo > n || hi.is_some_and(|h| h < n) { bad.push(format!("size_hint() = ({}, {:?})", lo, hi)); }
                let ws: Vec<Option<usize>> = (0..=n.min(6) + 1).map(|k| wanto.get(k).copied()).collect();
                if nths != ws { bad.push(format!("nth(k) = {:?}", nths)); }
                if skips != ws { bad.push(format!("skip(k).next() = {:?}", skips)); }
                let mut all = vec![];
                all.extend(first);
                all.extend(ra.iter().copied());
                if all != wanto || (first.is_some() && ra != rc) || after { bad.push(format!("next + rest = {:?}, clone after first = {:?}, next after None = {}", all, rc, after)); }
                if drained != (true, 0, true) { bad.push(format!("drained handle: (last() is None, count(), nth(0) is None) = {:?}", drained)); }
                let want_rest1 = (n.saturating_sub(1), if n >= 2 { wanto.last().copied() } else { None }, n.saturating_sub(1));
                if rest1 != want_rest1 { bad.push(format!("after one next(): (count(), last(), fold count) = {:?}, expected {:?}", rest1, want_rest1)); }
                if !bad.is_empty() {
                    ctx.violation(&format!("c11/{}/adapters", part), || format!("reference walk has {} tags at offsets {:?}; {}", n, wanto.iter().take(12).collect::<Vec<_>>(), bad.join("; ")));
                }
            }
        }
    }
    // typed getters
    for &k in kinds {
        let recs = {
            let mut b = Bat::new(ctx, p);
            hbattery::getter_level(&mut b, k, &hd_, p);
            b.recs
        };
        mbvlib::battery::feed(ctx, &recs);
        let want = match first_of(h, k) {
            None => vec![Rec { name: "getter", val: Val::E(0) }],
            Some(off) => {
                let mut e = vec![Rec { name: "getter", val: Val::U(off as u64) }];
                e.extend(hd::decode(k, &h[off..]));
                e
            }
        };
        check(ctx, part, hd::kind_name(k), &recs, &want);
    }
}

fn run(ctx: &mut Ctx) {
    let arena = Arena::new(2);
    let getters: Vec<u16> = (1..=10).collect();
    let quick = ctx.quick();
    ctx.bound("fields", "every header-tag kind 0..=10: sample image and every single-byte perturbation of flags and body bytes with {00,01,02,04,08,10,20,40,80,FF} (quick) / all 256 values (thorough) (enumerated fields kept inside their defined values), both architectures; header [filler][tag][end]; the header's four words, the tag walk and every accessor compared with the reference decoder");
    for kind in 0..=10u16 {
        let n = if kind == hd::INFO_REQ { 3 } else { 0 };
        for arch in [0u32, 4] {
            let img = hd::sample(kind, 1, n);
            let mut cases: Vec<(usize, u8)> = vec![(0, 0)];
            for &v in &[0u8, 1] {
                if img[2] != v {
                    cases.push((2, v));
                }
            }
            for p in 8..img.len() {
                for v in (0..=255u8).filter(|v| !quick || PERT.contains(v)) {
                    if v != img[p] && legal(kind, &img, p, v) {
                        cases.push((p, v));
                    }
                }
            }
            for (p, v) in cases {
                let mut t = img.clone();
                if p > 0 {
                    t[p] = v;
                }
                let filler = hd::sample(if kind == hd::FRAMEBUFFER { hd::ENTRY } else { hd::FRAMEBUFFER }, 2, 0);
                let h = hd::header(arch, &[filler, t, hd::end_tag()], 0xF7);
                let describe = || J::obj().set("part", "fields").set("kind", hd::kind_name(kind)).set("architecture", arch).set("perturbed_byte", if p > 0 { J::from(p) } else { J::Null }).set("value", v).set("header", J::hex(&h));
                ctx.leaf(describe, |ctx| {
                    ctx.state(hash::hash_bytes(&h));
                    ctx.nontrivial();
                    exec(ctx, &arena, &h, if kind == 0 { &[] } else { std::slice::from_ref(&kind) }, "fields");
                });
            }
        }
    }
    // whole-word values: a field that is 0 / all-ones / equal to a sibling field
    ctx.bound("field_words", "every header-tag kind: every 32-bit body word set to each EDGE32 value and to the value of every other body word; every pair of body words over {0, 1, 0xFFFFFFFF}^2 (enumerated fields kept inside their defined values); same program and oracle as above");
    for kind in 1..=10u16 {
        let n = if kind == hd::INFO_REQ { 4 } else { 0 };
        let img = hd::sample(kind, 1, n);
        let words: Vec<usize> = (8..img.len().saturating_sub(3)).step_by(4).collect();
        let word_ok = |t: &[u8]| match kind {
            hd::CONSOLE => rd32(t, 8) <= 1,
            hd::RELOCATABLE => rd32(t, 20) <= 2,
            _ => true,
        };
        let mut wcases: Vec<Vec<(usize, u32)>> = vec![];
        for &w in &words {
            for &v in EDGE32.iter() {
                wcases.push(vec![(w, v)]);
            }
            for &w2 in &words {
                if w2 != w {
                    wcases.push(vec![(w, rd32(&img, w2))]);
                }
            }
        }
        for (i, &w) in words.iter().enumerate() {
            for &w2 in &words[i + 1..] {
                for a in [0u32, 1, 0xFFFF_FFFF] {
                    for b in [0u32, 1, 0xFFFF_FFFF] {
                        wcases.push(vec![(w, a), (w2, b)]);
                    }
                }
            }
        }
        for case in wcases {
            let mut t = img.clone();
            for &(w, v) in &case {
                wr32(&mut t, w, v);
            }
            if !word_ok(&t) {
                continue;
            }
            let filler = hd::sample(if kind == hd::FRAMEBUFFER { hd::ENTRY } else { hd::FRAMEBUFFER }, 2, 0);
            let h = hd::header(0, &[filler, t, hd::end_tag()], 0xF7);
            let describe = || J::obj().set("part", "field_words").set("kind", hd::kind_name(kind)).set("words_set", J::Arr(case.iter().map(|(w, v)| J::from(format!("@{} = {:#x}", w, v))).collect())).set("header", J::hex(&h));
            ctx.leaf(describe, |ctx| {
                ctx.state(hash::hash_bytes(&h));
                ctx.nontrivial();
                exec(ctx, &arena, &h, std::slice::from_ref(&kind), "field_words");
            });
        }
    }
    let maxlen = if ctx.quick() { 3 } else { 4 };
    ctx.bound("selection", format!("per kind 1..=10: all tag sequences of length <= {} over {{instance 1, instance 2, another kind, end}} + final end tag; all 11 x 11 ordered pairs with all 10 getters; information-request lists of length 0..={} and headers whose tags lie on both sides of offsets 8192 and 32768 (2030..2043, 8182..8186, 16384 requests followed by three more tags)", maxlen, if ctx.quick() { 8 } else { 24 }));
    for kind in 1..=10u16 {
        let other = if kind == hd::FRAMEBUFFER { hd::ENTRY } else { hd::FRAMEBUFFER };
        let alphabet = [hd::sample(kind, 1, 2), hd::sample(kind, 2, 3), hd::sample(other, 3, 0), hd::end_tag()];
        for len in 0..=maxlen {
            for code in 0..4usize.pow(len as u32) {
                let mut tags = vec![];
                let mut c = code;
                let mut seq = vec![];
                for _ in 0..len {
                    tags.push(alphabet[c % 4].clone());
                    seq.push(c % 4);
                    c /= 4;
                }
                tags.push(hd::end_tag());
                let h = hd::header(0, &tags, 0xF7);
                let describe = || J::obj().set("part", "selection").set("kind", hd::kind_name(kind)).set("sequence", format!("{:?} (0,1 = two instances, 2 = another kind, 3 = end)", seq)).set("header", J::hex(&h));
                ctx.leaf(describe, |ctx| {
                    ctx.state(hash::hash_bytes(&h));
                    ctx.nontrivial();
                    exec(ctx, &arena, &h, std::slice::from_ref(&kind), "selection");
                });
            }
        }
    }
    for a in 0..=10u16 {
        for b in 0..=10u16 {
            let h = hd::header(4, &[hd::sample(a, 1, 1), hd::sample(b, 2, 2), hd::end_tag()], 0xF7);
            let describe = || J::obj().set("part", "pairs").set("first", hd::kind_name(a)).set("second", hd::kind_name(b)).set("header", J::hex(&h));
            ctx.leaf(describe, |ctx| {
                ctx.state(hash::hash_bytes(&h));
                ctx.nontrivial();
                exec(ctx, &arena, &h, &getters, "pairs");
            });
        }
    }
    // nested images: a complete tag image inside the request list of an information-request tag is not a tag
    ctx.bound("nested_images", "per kind K (not the information request itself): an information-request tag whose request words are a complete image of kind K (and one whose words are an end-tag image), before / after the real tag or without it; all 10 getters and the walk");
    for kind in (0..=10u16).filter(|k| *k != hd::INFO_REQ) {
        for arrangement in 0..3 {
            let inner = hd::sample(kind, 2, 2);
            let mut nest = vec![0u8; 8];
            nest.extend_from_slice(&inner);
            while nest.len() % 4 != 0 {
                nest.push(0);
            }
            wr16(&mut nest, 0, hd::INFO_REQ);
            wr16(&mut nest, 2, 0);
            let nl = nest.len() as u32;
            wr32(&mut nest, 4, nl);
            while nest.len() % 8 != 0 {
                nest.push(0xF7);
            }
            let real = hd::sample(kind, 1, 1);
            let mut tags = match arrangement {
                0 => vec![nest, real],
                1 => vec![real, nest],
                _ => vec![nest],
            };
            tags.push(hd::end_tag());
            let h = hd::header(0, &tags, 0xF7);
            let describe = || J::obj().set("part", "nested_images").set("kind", hd::kind_name(kind)).set("arrangement", ["nest, real", "real, nest", "nest only"][arrangement]).set("header", J::hex(&h));
            ctx.leaf(describe, |ctx| {
                ctx.state(hash::hash_bytes(&h));
                ctx.nontrivial();
                exec(ctx, &arena, &h, &getters, "nested_images");
            });
        }
    }
    // a realistic header (values as a kernel image declares them), complete, with each single tag left out, rotated,
    // with either flag on every tag, both architectures: what one tag says must not change how another is decoded
    ctx.bound("realistic_header", "a header with realistic contents of every kind (requests 1/6/8 and the EFI types, load addresses at 1 MiB, entry 0x100000, EGA console, framebuffer 1024x768x32 and 80x25x0, module alignment, EFI boot services, EFI entries, relocation 1 MiB..4 GiB): complete, with each single tag left out, in 4 rotations, reversed; flags all Required / all Optional / alternating; both architectures; all 10 getters and the walk");
    {
        let tags_for = |flagmode: usize, fbv: usize| -> Vec<Vec<u8>> {
            let f = |i: usize| -> u16 { match flagmode { 0 => 0, 1 => 1, _ => (i % 2) as u16 } };
            vec![
                hd::words(hd::INFO_REQ, f(0), &[1, 6, 8, 17, 18, 12]),
                hd::words(hd::ADDRESS, f(1), &[0x10_0010, 0x10_0000, 0x20_0000, 0x30_0000]),
                hd::words(hd::ENTRY, f(2), &[0x10_0000]),
                hd::words(hd::CONSOLE, f(3), &[1]),
                hd::words(hd::FRAMEBUFFER, f(4), &[[1024, 80][fbv], [768, 25][fbv], [32, 0][fbv]]),
                hd::words(hd::MODULE_ALIGN, f(5), &[]),
                hd::words(hd::EFI_BS, f(6), &[]),
                hd::words(hd::ENTRY_EFI32, f(7), &[0x10_1000]),
                hd::words(hd::ENTRY_EFI64, f(8), &[0x10_2000]),
                hd::words(hd::RELOCATABLE, f(9), &[0x10_0000, 0xFFFF_FFFF, 4096, 1]),
            ]
        };
        for arch in [0u32, 4] {
            for flagmode in 0..3usize {
                for fbv in 0..2usize {
                    let full = tags_for(flagmode, fbv);
                    let mut variants: Vec<(String, Vec<Vec<u8>>)> = vec![("complete".into(), full.clone())];
                    for k in 0..full.len() {
                        let mut v = full.clone();
                        v.remove(k);
                        variants.push((format!("without tag #{}", k), v));
                    }
                    for rot in [1usize, 3, 5, 7] {
                        let mut v = full.clone();
                        v.rotate_left(rot);
                        variants.push((format!("rotated by {}", rot), v));
                    }
                    let mut rv = full.clone();
                    rv.reverse();
                    variants.push(("reversed".into(), rv));
                    for (what, mut tags) in variants {
                        tags.push(hd::end_tag());
                        let h = hd::header(arch, &tags, 0);
                        let describe = || J::obj().set("part", "realistic_header").set("architecture", arch).set("flags", ["all required", "all optional", "alternating"][flagmode]).set("framebuffer", ["1024x768x32", "80x25x0"][fbv]).set("variant", what.as_str()).set("header", J::hex(&h));
                        ctx.leaf(describe, |ctx| {
                            ctx.state(hash::hash_bytes(&h));
                            ctx.nontrivial();
                            exec(ctx, &arena, &h, &getters, "realistic_header");
                        });
                    }
                }
            }
        }
    }
    // headers that do not end in an end tag: the wanted tag is the very last thing in the header
    ctx.bound("no_end_tag", "per kind K: headers [K], [other, K] and [other, other, K] without an end tag (K ends exactly at the header length), both architectures; all 10 getters and the walk");
    for kind in 1..=10u16 {
        for arch in [0u32, 4] {
            for front in 0..3usize {
                let other = if kind == hd::FRAMEBUFFER { hd::ENTRY } else { hd::FRAMEBUFFER };
                let mut tags: Vec<Vec<u8>> = (0..front).map(|i| hd::sample(if i == 0 { other } else { hd::RELOCATABLE }, 3, 0)).collect();
                if front == 2 && kind == hd::RELOCATABLE {
                    tags[1] = hd::sample(hd::ADDRESS, 3, 0);
                }
                tags.push(hd::sample(kind, 1, if kind == hd::INFO_REQ { 0 } else { 2 }));
                let h = hd::header(arch, &tags, 0xF7);
                let describe = || J::obj().set("part", "no_end_tag").set("kind", hd::kind_name(kind)).set("tags_in_front", front).set("architecture", arch).set("header", J::hex(&h));
                ctx.leaf(describe, |ctx| {
                    ctx.state(hash::hash_bytes(&h));
                    ctx.nontrivial();
                    exec(ctx, &arena, &h, &getters, "no_end_tag");
                });
            }
        }
    }
    // deep headers: the wanted tag comes after many other tags
    ctx.bound("deep_headers", "N module-alignment tags (N in 9..=13, 31..=33, 255..=257, 1000, 4095..=4097) in front of one instance of every kind; all 10 getters and the walk");
    {
        let deep = Arena::new(12);
        for n in [9usize, 10, 11, 12, 13, 31, 32, 33, 255, 256, 257, 1000, 4095, 4096, 4097] {
            let mut tags: Vec<Vec<u8>> = (0..n).map(|_| hd::words(hd::MODULE_ALIGN, 1, &[])).collect();
            for k in 1..=10u16 {
                if k != hd::MODULE_ALIGN {
                    tags.push(hd::sample(k, 1, 2));
                }
            }
            tags.push(hd::end_tag());
            let h = hd::header(0, &tags, 0xF7);
            let describe = || J::obj().set("part", "deep_headers").set("tags_in_front", n).set("header_len", h.len());
            ctx.leaf(describe, |ctx| {
                ctx.state(hash::hash_bytes(&h));
                ctx.nontrivial();
                exec(ctx, &deep, &h, &getters, "deep_headers");
            });
        }
    }
    // long headers: tags on both sides of the offsets 8192 and 32768 the specification mentions
    let big = Arena::new(20);
    for n in [2030usize, 2038, 2039, 2040, 2041, 2042, 2043, 8182, 8183, 8184, 8185, 8186, 16384] {
        let h = hd::header(4, &[hd::sample(hd::INFO_REQ, 3, n), hd::sample(hd::ENTRY, 1, 0), hd::sample(hd::FRAMEBUFFER, 2, 0), hd::sample(hd::RELOCATABLE, 3, 0), hd::end_tag()], 0xF7);
        let describe = || J::obj().set("part", "long_header").set("requests", n).set("header_len", h.len());
        ctx.leaf(describe, |ctx| {
            ctx.state(hash::hash_bytes(&h));
            ctx.nontrivial();
            exec(ctx, &big, &h, &getters, "long_header");
        });
    }
    // stored sizes above the specified one: inside the tag's own padding the typed accessors report the stored size; a
    // fixed-size kind that claims more (trailing vendor bytes) is stepped over by its stored size, and the tags behind
    // it are found where the stored size says
    ctx.bound("stored_sizes", "per fixed-size kind K: headers [K with stored size S][entry address][module alignment][end] for S from the specified size to the specified size + 24 (the claimed bytes present, marker-filled or holding a module-alignment tag image); all getters (the getter of K itself while S stays inside the tag's padding) and the walk");
    for k in 2..=10u16 {
        let base = hd::sample(k, 0, 1);
        let spec = rd32(&base, 4) as usize;
        for size in spec..=spec + 24 {
            for fillimg in [false, true] {
                let mut t = base.clone();
                t.resize(round8(size), 0);
                for i in spec..t.len() {
                    t[i] = marker(i, 29);
                }
                if fillimg && t.len() >= round8(spec) + 8 {
                    let o = round8(spec);
                    t[o..o + 8].copy_from_slice(&[6, 0, 0, 0, 8, 0, 0, 0]);
                }
                wr32(&mut t, 4, size as u32);
                let tags = vec![t, hd::sample(if k == hd::ENTRY { hd::ENTRY_EFI32 } else { hd::ENTRY }, 0, 0), hd::sample(if k == hd::MODULE_ALIGN { hd::EFI_BS } else { hd::MODULE_ALIGN }, 0, 0), hd::end_tag()];
                let h = hd::header(0, &tags, 0);
                let kinds: Vec<u16> = (1..=10u16).filter(|&g| g != k || size <= round8(spec)).collect();
                let describe = || J::obj().set("part", "stored_sizes").set("kind", hd::kind_name(k)).set("stored_size", size).set("specified_size", spec).set("claimed_bytes_hold_a_tag_image", fillimg).set("header", J::hex(&h));
                ctx.leaf(describe, |ctx| {
                    ctx.state(hash::hash_bytes(&h));
                    ctx.nontrivial();
                    exec(ctx, &arena, &h, &kinds, "stored_sizes");
                });
            }
        }
    }
    // addresses relative to one another and to the header's own extent
    ctx.bound("relative_addresses", "with H in {1 MiB, 0} and every distance d in 0..=160 (step 4, plus d +- 1 around multiples of 8): headers [address: header at H, load end / bss end H + d][entry / EFI32 entry / EFI64 entry address H + d][relocatable window H..H + d][end] and the same without the address tag; all 10 getters and the walk");
    {
        let mut ds: Vec<u32> = (0..=160).step_by(4).collect();
        for m in (8..=160u32).step_by(8) {
            ds.push(m - 1);
            ds.push(m + 1);
        }
        for d in ds {
            for h0 in [0x10_0000u32, 0] {
                for with_addr in [true, false] {
                    for e in [hd::ENTRY, 8u16, 9u16] {
                        let mut tags = vec![];
                        if with_addr {
                            tags.push(hd::words(hd::ADDRESS, 0, &[h0, h0, h0 + d, h0 + d]));
                        }
                        tags.push(hd::words(e, 0, &[h0 + d]));
                        tags.push(hd::words(hd::RELOCATABLE, 0, &[h0, h0 + d, 8, 0]));
                        tags.push(hd::end_tag());
                        let h = hd::header(0, &tags, 0);
                        let describe = || J::obj().set("part", "relative_addresses").set("base", h0).set("distance", d).set("address_tag", with_addr).set("entry_kind", e).set("header", J::hex(&h));
                        ctx.leaf(describe, |ctx| {
                            ctx.state(hash::hash_bytes(&h));
                            ctx.nontrivial();
                            exec(ctx, &arena, &h, &getters, "relative_addresses");
                        });
                    }
                }
            }
        }
    }
    // far tags: one huge information request in front, so that every other tag starts 64 KiB / 512 KiB / 1 MiB (each
    // +-8, 512 KiB also -16) behind the first tag - positions counted in 8-byte units cross 2^13, 2^16 and 2^17
    ctx.bound("far_tags", "an information request of (D-8)/4 entries in front of one instance of every other kind, for D (the distance of the second tag from the first) in {65528, 65536, 65544, 524272, 524280, 524288, 524296, 1048568, 1048576, 1048584}; all 10 getters and the walk");
    {
        let far = Arena::new(270);
        for d in [65528usize, 65536, 65544, 524272, 524280, 524288, 524296, 1048568, 1048576, 1048584] {
            let mut tags = vec![hd::sample(hd::INFO_REQ, 3, (d - 8) / 4)];
            for k in 1..=10u16 {
                if k != hd::INFO_REQ {
                    tags.push(hd::sample(k, 1, 2));
                }
            }
            tags.push(hd::end_tag());
            let h = hd::header(0, &tags, 0xF7);
            let describe = || J::obj().set("part", "far_tags").set("distance_of_second_tag", d).set("header_len", h.len());
            ctx.leaf(describe, |ctx| {
                ctx.state(hash::hash_bytes(&h));
                ctx.nontrivial();
                exec(ctx, &far, &h, &getters, "far_tags");
            });
        }
    }
    for n in 0..=(if ctx.quick() { 8 } else { 24 }) {
        let h = hd::header(0, &[hd::sample(hd::INFO_REQ, 3, n), hd::end_tag()], 0);
        let describe = || J::obj().set("part", "information_request").set("requests", n).set("header", J::hex(&h));
        ctx.leaf(describe, |ctx| {
            ctx.state(hash::hash_bytes(&h));
            ctx.nontrivial();
            exec(ctx, &arena, &h, &[hd::INFO_REQ], "information_request");
        });
    }
}

fn main() {
    main_wrap("C11", run);
}
