//! C10 - header loading accepts exactly magic- and checksum-valid headers;
//! the checksum law holds for all 2^32 lengths.
use mbvlib::spec::*;
use mbvlib::*;
use multiboot2_common::MemoryError;
use multiboot2_header::{HeaderTagISA, LoadError, Multiboot2BasicHeader, Multiboot2Header, MAGIC};

const SPEC_MAGIC: u32 = 0xE852_50D6;

#[derive(Clone, Copy, PartialEq, Eq, Debug)]
enum V {
    Null,
    Short,
    Padding,
    Magic,
    Checksum,
    Ok,
}
fn vname(v: V) -> &'static str {
    match v {
        V::Null => "Null",
        V::Short => "ShorterThanHeader",
        V::Padding => "MissingPadding",
        V::Magic => "MagicNotFound",
        V::Checksum => "ChecksumMismatch",
        V::Ok => "Ok",
    }
}

fn verdict(magic: u32, arch: u32, length: u32, checksum: u32) -> V {
    if length < 16 {
        V::Short
    } else if length % 8 != 0 {
        V::Padding
    } else if magic != SPEC_MAGIC {
        V::Magic
    } else if magic.wrapping_add(arch).wrapping_add(length).wrapping_add(checksum) != 0 {
        V::Checksum
    } else {
        V::Ok
    }
}

fn observe(ctx: &mut Ctx, p: *const u8, expected: V, what: impl Fn() -> String) {
    let r = ctx.call("Multiboot2Header::load", || unsafe {
        Multiboot2Header::load(p as *const Multiboot2BasicHeader).map(|h| (h.length(), h.checksum()))
    });
    let got = match &r {
        Out::Panic => None,
        Out::Val(Ok(_)) => Some(V::Ok),
        Out::Val(Err(LoadError::Memory(MemoryError::Null))) => Some(V::Null),
        Out::Val(Err(LoadError::Memory(MemoryError::ShorterThanHeader))) => Some(V::Short),
        Out::Val(Err(LoadError::Memory(MemoryError::MissingPadding))) => Some(V::Padding),
        Out::Val(Err(LoadError::MagicNotFound)) => Some(V::Magic),
        Out::Val(Err(LoadError::ChecksumMismatch)) => Some(V::Checksum),
        Out::Val(Err(_)) => None,
    };
    ctx.ob("load.class", got.map(|g| g as u64 + 1).unwrap_or(0));
    match (&r, got) {
        (Out::Panic, _) => {
            ctx.class("load:panic");
            ctx.violation(&format!("c10/load/panic/expected-{}", vname(expected)), || format!("load panicked; must return {} ({})", vname(expected), what()))
        }
        (_, Some(g)) if g == expected => ctx.class(match g {
            V::Null => "load:Null",
            V::Short => "load:ShorterThanHeader",
            V::Padding => "load:MissingPadding",
            V::Magic => "load:MagicNotFound",
            V::Checksum => "load:ChecksumMismatch",
            V::Ok => "load:Ok",
        }),
        (Out::Val(Err(e)), _) => ctx.violation(&format!("c10/load/wrong-verdict/expected-{}", vname(expected)), || format!("load returned Err({:?}); must be {} ({})", e, vname(expected), what())),
        (Out::Val(Ok(_)), _) => ctx.violation(&format!("c10/load/accepted/expected-{}", vname(expected)), || format!("load accepted a header that must be refused with {} ({})", vname(expected), what())),
    }
}

fn run(ctx: &mut Ctx) {
    // ---------------- load
    let max_len: u32 = if ctx.quick() && ctx.dev_profile() { 4096 + 16 } else { 65536 + 16 };
    ctx.bound("load", format!("null pointer; length word 0..={} x architecture {{0,4}} x magic {{MAGIC, MAGIC^1, 0, byte-swapped MAGIC, half-swapped MAGIC, 0x36D76289, 0x1BADB002}} x checksum {{correct, +1, -1, ^0x80000000}}, and with the spec magic additionally the checksums of other conventions {{magic / architecture / length left out, the other architecture, length +-8 / +16, plain sum, one's complement, xor sum, byte-swapped length, byte-swapped checksum, 0}} and for the dense lengths every EDGE32 value as a literal checksum word; for lengths 0..=64, 4096 and 65536 additionally magic with every single bit flipped x checksum with every single bit flipped; header placed flush against a PROT_NONE guard page", max_len));
    let arena = Arena::new((max_len as usize + 16) / arena::PAGE + 2);
    arena.fill(0x5A);
    ctx.leaf(
        || J::obj().set("pointer", "null"),
        |ctx| {
            observe(ctx, std::ptr::null(), V::Null, || "null pointer".into());
            ctx.state_direct();
            ctx.nontrivial();
        },
    );
    // the magic, a one-bit neighbour, zero, and look-alikes of other byte orders / other boot protocols
    let mut magics_small = vec![SPEC_MAGIC, SPEC_MAGIC ^ 1, 0, SPEC_MAGIC.swap_bytes(), SPEC_MAGIC.rotate_left(16), 0x36D7_6289, 0x1BAD_B002];
    let mut magics_full = magics_small.clone();
    for b in 1..32 {
        magics_full.push(SPEC_MAGIC ^ (1 << b));
    }
    magics_small.dedup();
    for length in 0..=max_len {
        let dense = length <= 64 || length == 4096 || length == 65536;
        let span = round8(length as usize).max(16);
        let p = unsafe { arena.end().sub(span) };
        for arch in [0u32, 4] {
            let magics = if dense { &magics_full } else { &magics_small };
            for &magic in magics {
                let correct = 0u32.wrapping_sub(magic).wrapping_sub(arch).wrapping_sub(length);
                let mut sums = vec![correct, correct.wrapping_add(1), correct.wrapping_sub(1), correct ^ 0x8000_0000];
                if dense {
                    for b in 0..31 {
                        sums.push(correct ^ (1 << b));
                    }
                }
                if dense || magic == SPEC_MAGIC {
                    // checksums of other conventions: one of the words left out, the other architecture, a neighbouring
                    // length, the plain / one's-complement / xor sum
                    let sum = magic.wrapping_add(arch).wrapping_add(length);
                    for c in [
                        0u32.wrapping_sub(arch).wrapping_sub(length),
                        0u32.wrapping_sub(magic).wrapping_sub(length),
                        0u32.wrapping_sub(magic).wrapping_sub(arch),
                        0u32.wrapping_sub(magic).wrapping_sub(arch ^ 4).wrapping_sub(length),
                        correct.wrapping_add(8),
                        correct.wrapping_sub(8),
                        correct.wrapping_sub(16),
                        sum,
                        !sum,
                        0u32.wrapping_sub(magic ^ arch ^ length),
                        0u32.wrapping_sub(magic).wrapping_sub(arch).wrapping_sub(length.swap_bytes()),
                        correct.swap_bytes(),
                        0,
                    ] {
                        if !sums.contains(&c) {
                            sums.push(c);
                        }
                    }
                    // literal boundary values as the checksum word (0x80000000 negates to itself, ...)
                    if dense {
                        for &c in EDGE32.iter() {
                            if !sums.contains(&c) {
                                sums.push(c);
                            }
                        }
                    }
                }
                for &cs in &sums {
                    let describe = || J::obj().set("magic", format!("{:#x}", magic)).set("architecture", arch).set("length", length).set("checksum", format!("{:#x}", cs));
                    ctx.leaf(describe, |ctx| {
                        let region: &mut [u8] = unsafe { std::slice::from_raw_parts_mut(p, 16) };
                        wr32(region, 0, magic);
                        wr32(region, 4, arch);
                        wr32(region, 8, length);
                        wr32(region, 12, cs);
                        let expected = verdict(magic, arch, length, cs);
                        observe(ctx, p, expected, || format!("magic {:#x} arch {} length {} checksum {:#x}", magic, arch, length, cs));
                        ctx.state_direct();
                        ctx.nontrivial();
                    });
                }
            }
        }
    }
    // what the tag area holds has no bearing on load
    ctx.bound("contents", "headers of 16..=56 bytes with valid magic, length and checksum, both architectures, whose tag area is every sequence of 8-byte images over {end tag, module-align tag, zeros, FF x 8, a (console, size 12) tag header, a (request, size 0xFFFFFFFF) tag header}: tags behind an end tag, no end tag, sizes that leave the header - load succeeds on all of them");
    {
        const IMG: [[u8; 8]; 6] = [[0, 0, 0, 0, 8, 0, 0, 0], [6, 0, 0, 0, 8, 0, 0, 0], [0; 8], [0xFF; 8], [4, 0, 0, 0, 12, 0, 0, 0], [1, 0, 1, 0, 0xFF, 0xFF, 0xFF, 0xFF]];
        let carena = Arena::new(2);
        for slots in 0..=5usize {
            for code in 0..6usize.pow(slots as u32) {
                for arch in [0u32, 4] {
                    let length = 16 + 8 * slots as u32;
                    let describe = || J::obj().set("part", "contents").set("architecture", arch).set("length", length).set("tag_area_code_base_6", code);
                    ctx.leaf(describe, |ctx| {
                        let mut h = vec![0u8; length as usize];
                        wr32(&mut h, 0, SPEC_MAGIC);
                        wr32(&mut h, 4, arch);
                        wr32(&mut h, 8, length);
                        wr32(&mut h, 12, 0u32.wrapping_sub(SPEC_MAGIC).wrapping_sub(arch).wrapping_sub(length));
                        for i in 0..slots {
                            let sym = (code / 6usize.pow(i as u32)) % 6;
                            h[16 + 8 * i..24 + 8 * i].copy_from_slice(&IMG[sym]);
                        }
                        carena.fill(0x5A);
                        let p = carena.place_right(&h);
                        observe(ctx, p, V::Ok, || format!("valid words, arch {}, length {}, tag area {:02x?}", arch, length, &h[16..]));
                        ctx.state_direct();
                        ctx.nontrivial();
                    });
                }
            }
        }
    }
    verify_sweep(ctx);
    // ---------------- checksum law
    let full = !(ctx.quick() && ctx.dev_profile());
    ctx.bound("checksum_law", if full { "magic + arch + length + calc_checksum == 0 (mod 2^32): all 2^32 lengths x {I386, MIPS32} x magic {MAGIC,0,1,0x80000000,0xFFFFFFFF}" } else { "the same law on the lattice h<<16|l (quick, dev profile); the release configuration sweeps all 2^32 lengths" });
    sweep_u32(ctx, "calc_checksum law", "c10/checksum-law", full, 10, |len| {
        let mut acc = 0u64;
        for arch in [HeaderTagISA::I386, HeaderTagISA::MIPS32] {
            for magic in [MAGIC, 0, 1, 0x8000_0000, 0xFFFF_FFFF] {
                let c = Multiboot2Header::calc_checksum(magic, arch, len);
                let a = arch as u32;
                if magic.wrapping_add(a).wrapping_add(len).wrapping_add(c) != 0 {
                    return Err(format!("calc_checksum({:#x}, {:?}, {:#x}) = {:#x}: the four words do not sum to 0 mod 2^32", magic, arch, len, c));
                }
                acc = acc.wrapping_add(c as u64);
            }
        }
        Ok(acc)
    });
}

/// The acceptance side of the checksum law: for every length and both architectures the header carrying the
/// spec-correct checksum verifies (and loads, where the length is a multiple of 8 >= 16), the one carrying
/// checksum + 1 does not.  Headers live in a sparsely backed 4 GiB arena, flush right, so every declared
/// region physically exists.
fn verify_sweep(ctx: &mut Ctx) {
    let full = !(ctx.quick() && ctx.dev_profile());
    let arena = Arena::new_sparse((1usize << 32) / arena::PAGE + 2);
    ctx.bound("verify_law", if full { "all 2^32 lengths x {I386, MIPS32}: verify_checksum() is true for the spec-correct checksum and false for checksum+1; load() of that header (flush right in a sparse 4 GiB arena) succeeds iff length >= 16 and length % 8 == 0" } else { "the same on the lattice h<<16|l (quick, dev profile)" });
    let base = arena.end() as usize;
    sweep_u32(ctx, "verify_checksum / load law", "c10/verify-law", full, 6, |len| {
        let mut acc = 0u64;
        for arch in [0u32, 4] {
            let correct = 0u32.wrapping_sub(SPEC_MAGIC).wrapping_sub(arch).wrapping_sub(len);
            let good: Multiboot2BasicHeader = unsafe { std::mem::transmute::<[u32; 4], Multiboot2BasicHeader>([SPEC_MAGIC, arch, len, correct]) };
            let bad: Multiboot2BasicHeader = unsafe { std::mem::transmute::<[u32; 4], Multiboot2BasicHeader>([SPEC_MAGIC, arch, len, correct.wrapping_add(1)]) };
            if !good.verify_checksum() {
                return Err(format!("verify_checksum() refuses the valid checksum {:#x} (arch {}, length {:#x})", correct, arch, len));
            }
            if bad.verify_checksum() {
                return Err(format!("verify_checksum() accepts the invalid checksum {:#x} (arch {}, length {:#x})", correct.wrapping_add(1), arch, len));
            }
            if len % 8 == 0 && (len as usize) < (1usize << 32) - 4096 {
                // load the header in place
                let span = (len as usize).max(16);
                let p = (base - span) as *mut u32;
                unsafe {
                    p.write(SPEC_MAGIC);
                    p.add(1).write(arch);
                    p.add(2).write(len);
                    p.add(3).write(correct);
                }
                let r = unsafe { Multiboot2Header::load(p as *const Multiboot2BasicHeader) };
                let want_ok = len >= 16;
                match (&r, want_ok) {
                    (Ok(_), true) => acc += 1,
                    (Err(LoadError::Memory(MemoryError::ShorterThanHeader)), false) => {}
                    _ => return Err(format!("load of the valid header (arch {}, length {:#x}, checksum {:#x}) gives {:?}", arch, len, correct, r.map(|_| ()))),
                }
            }
        }
        Ok(acc)
    });
}

fn main() {
    main_wrap("C10", run);
}
