//! C09 - header parsing never reads outside the declared header, never
//! crashes, always terminates (enumerated fields inside their defined values).
use mbvlib::battery::{self, Bat};
use mbvlib::hbattery::{self, Rec, Val};
use mbvlib::spec::hd;
use mbvlib::spec::*;
use mbvlib::*;
use multiboot2_header::{DynSizedStructure, HeaderTagHeader, Multiboot2BasicHeader, Multiboot2Header};

type Generic = DynSizedStructure<HeaderTagHeader>;

fn range_edge(lo: u32, hi: u32) -> Vec<u32> {
    let mut v: Vec<u32> = (lo..=hi).collect();
    v.extend(EDGE32.iter().copied().filter(|e| *e < lo || *e > hi));
    v
}

fn extents(ctx: &mut Ctx, kind: u16, recs: &[Rec], seam: &'static str) {
    let size = recs.iter().find(|r| r.name == "size").and_then(|r| if let Val::U(v) = r.val { Some(v) } else { None });
    let Some(size) = size else { return };
    let ext = round8(size as usize) as i64;
    for r in recs {
        if let Val::S { off, len, .. } = r.val {
            if off < 0 || off + len as i64 > ext {
                ctx.violation(&format!("c09/extent/{}/{}/{}", seam, hd::kind_name(kind), r.name), || format!("{} of a {} header tag of size {}: bytes [{}, {}) handed out, padded extent [0, {})", r.name, hd::kind_name(kind), size, off, off + len as i64, ext));
            }
        }
        if r.name == "size_of_val" {
            if let Val::U(v) = r.val {
                if v as i64 > ext {
                    ctx.violation(&format!("c09/extent/{}/{}/size_of_val", seam, hd::kind_name(kind)), || format!("typed view of {} bytes on a tag whose padded extent is {}", v, ext));
                }
            }
        }
    }
}

/// physical image for a tag whose size word was set to `size`
fn physical(img: &[u8], size: u32, cap: usize) -> Vec<u8> {
    let mut t = img.to_vec();
    wr32(&mut t, 4, size);
    let phys = if size >= 8 && size as usize <= cap { round8(size as usize) } else { round8(img.len()) };
    let n0 = t.len();
    t.resize(phys, 0);
    for i in n0..phys {
        t[i] = marker(i, 23);
    }
    t
}

fn tag_level(ctx: &mut Ctx, arena: &Arena, kind: u16, img: &[u8]) {
    for right in [true, false] {
        ctx.under_fills(&format!("c09/o5/tag/{}", hd::kind_name(kind)), |ctx, fill| {
            let p = arena.put(img, right, fill);
            let slice: &[u8] = unsafe { std::slice::from_raw_parts(p, img.len()) };
            match ctx.call("ref_from_slice", || Generic::ref_from_slice(slice)) {
                Out::Panic | Out::Val(Err(_)) => {
                    ctx.ob("rfs", 1);
                    ctx.class("tag:refused");
                }
                Out::Val(Ok(g)) => {
                    let recs = {
                        let mut b = Bat::new(ctx, p);
                        hbattery::tag_level(&mut b, kind, g);
                        b.s("payload", || Ok(g.payload()));
                        b.dbg("Debug(generic)", g);
                        b.recs
                    };
                    battery::feed(ctx, &recs);
                    extents(ctx, kind, &recs, "tag");
                    ctx.class(if recs.iter().any(|r| r.val == Val::Panic) { "tag:controlled-panic" } else { "tag:values" });
                }
            }
        });
    }
}

fn header_level(ctx: &mut Ctx, arena: &Arena, h: &[u8]) {
    let len = rd32(h, 8) as usize;
    for right in [true, false] {
        // flush-left: fills A and B, and a well-formed continuation of the tag chain behind the declared length
        ctx.under_variants("c09/o5/header", if right { 2 } else { 3 }, |ctx, variant| {
            let p = arena.put(h, right, if variant == 1 { arena::FILL_B } else { arena::FILL_A });
            if variant == 2 && len % 8 == 0 && len + 40 <= arena.len() {
                // [console flags tag (4, 0, 12)][end tag] behind the header, wherever the declared length ends
                arena.place_at(len, &[4, 0, 0, 0, 12, 0, 0, 0, 3, 0, 0, 0, 0, 0, 0, 0, 0, 0, 0, 0, 8, 0, 0, 0]);
            }
            let hd_ = match ctx.call("load", || unsafe { Multiboot2Header::load(p as *const Multiboot2BasicHeader) }) {
                Out::Val(Ok(x)) => x,
                Out::Val(Err(_)) => {
                    ctx.ob("load", 2);
                    ctx.class("header:load-error");
                    return;
                }
                Out::Panic => {
                    ctx.ob("load", 1);
                    ctx.class("header:load-panic");
                    return;
                }
            };
            ctx.class("header:loaded");
            let mut passes: Vec<Vec<Vec<Rec>>> = vec![];
            for pass in 0..2 {
                let mut lists: Vec<Vec<Rec>> = vec![Vec::new(); 13];
                let order: Vec<usize> = if pass == 0 { (0..13).collect() } else { (0..13).rev().collect() };
                for slot in order {
                    let mut b = Bat::new(ctx, p);
                    match slot {
                        1..=10 => {
                            hbattery::getter_level(&mut b, slot as u16, &hd_, p);
                            let recs = std::mem::take(&mut b.recs);
                            drop(b);
                            extents(ctx, slot as u16, &recs, "header");
                            if let Some(Rec { val: Val::U(off), .. }) = recs.iter().find(|r| r.name == "getter") {
                                let sov = recs.iter().find(|r| r.name == "size_of_val").and_then(|r| if let Val::U(v) = r.val { Some(v) } else { None }).unwrap_or(0);
                                if *off < 16 || off + sov > len as u64 {
                                    ctx.violation(&format!("c09/extent/header/{}/reference", hd::kind_name(slot as u16)), || format!("typed reference [{}, {}) outside the header of {} bytes", off, off + sov, len));
                                }
                            }
                            lists[slot] = recs;
                        }
                        0 => {
                            hbattery::header_words(&mut b, &hd_);
                            lists[slot] = b.recs;
                        }
                        _ => {
                            hbattery::walk_opts(&mut b, &hd_, p, len / 8 + 2, true);
                            let recs = std::mem::take(&mut b.recs);
                            drop(b);
                            if recs.iter().any(|r| r.name == "iter.unbounded") {
                                ctx.violation("c09/termination/iter", || "the tag iterator yields more items than 8-byte slots exist".into());
                            }
                            for r in &recs {
                                if let Val::S { off, len: l, .. } = r.val {
                                    if off < 16 || off as usize + l > len {
                                        ctx.violation(&format!("c09/extent/header/walk/{}", r.name), || format!("{}: bytes [{}, {}) outside the header of {} bytes", r.name, off, off as usize + l, len));
                                    }
                                }
                            }
                            lists[slot] = recs;
                            if slot == 12 {
                                lists[slot].clear(); // slot 11 and 12 are the same walk; keep one
                            }
                        }
                    }
                }
                passes.push(lists);
            }
            for slot in 0..13 {
                battery::feed(ctx, &passes[0][slot]);
                if passes[0][slot] != passes[1][slot] {
                    ctx.machinery(&format!("call group {} gives different results in declaration order and in reverse order: the statelessness assumption behind the accessor battery (DESIGN 2.4) does not hold", slot));
                }
            }
        });
    }
}

fn run(ctx: &mut Ctx) {
    let arena = Arena::new(2);
    let quick = ctx.quick();
    ctx.bound("tag_level", "11 header-tag kinds (information request with 0 and 3 entries): tag size 0..=extent+17 + EDGE32; slice = padded extent, flush-right / flush-left against guard pages, fills A/B; cast + all accessors + Debug");
    let mut bases: Vec<(u16, Vec<u8>)> = vec![];
    for kind in 0..=10u16 {
        bases.push((kind, hd::sample(kind, 1, 0)));
        if kind == hd::INFO_REQ {
            bases.push((kind, hd::sample(kind, 1, 3)));
        }
    }
    for (kind, img) in &bases {
        let cap = img.len() + 17;
        for size in range_edge(0, cap as u32) {
            let t = physical(img, size, cap);
            let describe = || J::obj().set("part", "tag").set("kind", hd::kind_name(*kind)).set("declared_size", size).set("slice", J::hex(&t));
            ctx.leaf(describe, |ctx| {
                ctx.state(hash::hash_bytes(&t));
                ctx.nontrivial();
                tag_level(ctx, &arena, *kind, &t);
            });
        }
    }
    ctx.bound("header_level", format!("headers [deviating tag][neighbour][end] and [neighbour][deviating tag][end] for every tag size above and two neighbours, both architectures{}; headers [neighbour][tag claiming 0..=extent+41 bytes without being extended][end or nothing]; header length word 0..=len+17 + EDGE32 (checksum recomputed, physical region as large as declared); flush-left additionally with a well-formed continuation of the tag chain behind the declared length; program = load, the four words, the 10 getters with batteries, iter() walk, forwards and in reverse order", if quick { "" } else { "; all ordered triples of conformant tags with one deviating size" }));
    let neighbours = [hd::sample(hd::ADDRESS, 5, 0), hd::sample(hd::INFO_REQ, 5, 2)];
    for (kind, img) in &bases {
        let cap = img.len() + 17;
        for size in range_edge(0, cap as u32) {
            let t = physical(img, size, cap);
            for (ni, nb) in neighbours.iter().enumerate() {
                for first in [true, false] {
                    for arch in [0u32, 4] {
                        if quick && arch == 4 && ni == 1 {
                            continue;
                        }
                        let tags = if first { vec![t.clone(), nb.clone(), hd::end_tag()] } else { vec![nb.clone(), t.clone(), hd::end_tag()] };
                        let h = hd::header(arch, &tags, 0xF7);
                        let describe = || J::obj().set("part", "header").set("kind", hd::kind_name(*kind)).set("declared_size", size).set("neighbour", ni).set("deviating_tag_first", first).set("architecture", arch).set("header", J::hex(&h));
                        ctx.leaf(describe, |ctx| {
                            ctx.state(hash::hash_bytes(&h));
                            ctx.nontrivial();
                            header_level(ctx, &arena, &h);
                        });
                    }
                }
            }
        }
    }
    // a tag that is not the first and claims more than what is left of the header (not physically extended: it overlaps
    // the end tag, or is the last thing in the header)
    for (kind, img) in &bases {
        let cap = img.len() + 41;
        for size in range_edge(0, cap as u32) {
            let mut t = img.clone();
            wr32(&mut t, 4, size);
            while t.len() % 8 != 0 {
                t.push(0xF7);
            }
            for (ni, nb) in neighbours.iter().enumerate() {
                for with_end in [true, false] {
                    let mut tags = vec![nb.clone(), t.clone()];
                    if with_end {
                        tags.push(hd::end_tag());
                    }
                    let h = hd::header(0, &tags, 0xF7);
                    let describe = || J::obj().set("part", "header-overshoot").set("kind", hd::kind_name(*kind)).set("declared_size", size).set("neighbour_in_front", ni).set("end_tag_behind", with_end).set("header", J::hex(&h));
                    ctx.leaf(describe, |ctx| {
                        ctx.state(hash::hash_bytes(&h));
                        ctx.nontrivial();
                        header_level(ctx, &arena, &h);
                    });
                }
            }
        }
    }
    // header length deviations
    for (kind, img) in &bases {
        let full = hd::header(0, &[img.clone(), hd::end_tag()], 0xF7);
        let cap = full.len() + 17;
        for l in range_edge(0, cap as u32) {
            // precondition of the property: the region is as large as it declares. Lengths beyond
            // the arena are only used where load must refuse them from the header words alone.
            if l as usize > cap && l % 8 == 0 {
                continue;
            }
            let mut h = full.clone();
            let phys = if l >= 16 && l as usize <= cap { round8(l as usize) } else { full.len() };
            let n0 = h.len();
            h.resize(phys.max(16), 0);
            for i in n0..h.len() {
                h[i] = marker(i, 29) & 0x07; // keeps type / flag halfwords of stray tags inside defined values
            }
            h.truncate(phys.max(16));
            wr32(&mut h, 8, l);
            hd::fix_checksum(&mut h);
            let describe = || J::obj().set("part", "header-length").set("kind", hd::kind_name(*kind)).set("length_word", l).set("header", J::hex(&h));
            ctx.leaf(describe, |ctx| {
                ctx.state(hash::hash_bytes(&h));
                ctx.nontrivial();
                header_level(ctx, &arena, &h);
            });
        }
    }
}

fn main() {
    main_wrap("C09", run);
}
