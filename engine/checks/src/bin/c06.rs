//! C06 - building then loading a boot information preserves exactly the
//! supplied tags.
use mbvlib::spec::bi;
use mbvlib::spec::*;
use mbvlib::*;
use multiboot2::*;
use multiboot2_common::{new_boxed, MaybeDynSized};

#[global_allocator]
static A: ledger::Counting = ledger::Counting;

const NSLOTS: usize = 22;
const SLOT_NAMES: [&str; NSLOTS] = [
    "cmdline", "bootloader", "add_module", "meminfo", "bootdev", "mmap", "vbe", "framebuffer", "elf_sections", "apm",
    "efi32", "efi64", "add_smbios", "rsdpv1", "rsdpv2", "efi_mmap", "network", "efi_bs", "efi32_ih", "efi64_ih",
    "image_load_addr", "add_custom_tag",
];
const REPEATABLE: [bool; NSLOTS] = [false, false, true, false, false, false, false, false, false, false, false, false, true, false, false, false, false, false, false, false, false, true];

/// Reference model of the builder: slot map with "last call wins" / "append".
#[derive(Default, Clone)]
struct Model {
    single: Vec<Option<Vec<u8>>>,
    multi: Vec<Vec<Vec<u8>>>,
}
impl Model {
    fn new() -> Self {
        Model { single: vec![None; NSLOTS], multi: vec![Vec::new(); NSLOTS] }
    }
    fn put(&mut self, slot: usize, bytes: Vec<u8>) {
        if REPEATABLE[slot] {
            self.multi[slot].push(bytes)
        } else {
            self.single[slot] = Some(bytes)
        }
    }
}

fn supplied<T: MaybeDynSized<Header = TagHeader> + ?Sized>(t: &T) -> Vec<u8> {
    let b = t.as_bytes();
    b[..t.header().size as usize].to_vec()
}

/// Make the builder call for `slot` with content variant `c` (any value: it
/// seeds lengths and field values), recording the supplied tag in the model.
fn call(b: Builder, m: &mut Model, slot: usize, c: usize) -> Builder {
    let s = c as u32;
    // seeds >= 1000: empty text / empty blob; seeds >= 2000: custom tags that share one type number
    let empty = (1000..2000).contains(&c);
    // seeds 5000..5003: contents as real boot loaders and firmware produce them (well-known addresses, names, layouts)
    let real = (5000..5010).contains(&c);
    let rv = c.saturating_sub(5000);
    let text: String = if real { ["root=/dev/sda1 ro quiet", "GRUB 2.06", "/boot/initrd.img", "console=ttyS0,115200"][(rv + slot) % 4].to_string() } else if empty { String::new() } else { (0..(3 + 5 * (c % 1000))).map(|i| (b'a' + ((i + slot) % 26) as u8) as char).collect() };
    let mut blob: Vec<u8> = if empty { vec![] } else { (0..(2 + 7 * (c % 1000))).map(|i| marker(i, slot + 50)).collect() };
    // seeds 3000..: contents that look like structure (end-tag images, a tag header, a whole boot information)
    let look = (3000..4000).contains(&c);
    // seeds 8000..8003: contents that are related across slots (the same text, the same pointer value, an ACPI 1.0
    // RSDP that is the prefix of the ACPI 2.0 one, both with valid checksums)
    let related = (8000..8004).contains(&c);
    let relv = c.saturating_sub(8000);
    // seeds 9000..9005: texts with NUL bytes in them (the constructors store them as they are), and blobs that are
    // protocol packets (a DHCP ACK padded to the BOOTP minimum of 300 bytes, the same ending exactly at its END option)
    let nul = (9000..9010).contains(&c);
    // (texts 1 and 3 end in NUL and are 8 resp. 16 bytes long with it: the stored text ends on an 8-byte boundary)
    let text = if nul { ["console=ttyS0\0root=/dev/sda1", "console\0", "\0", "GRUB 2.12~rc1-1\0", "\0\0x", "a\0b\0", "console=ttyS0 quiet ", " ", "x\t", "trailing\n"][c - 9000].to_string() } else { text };
    if nul && c >= 9006 {
        // an SMBIOS structure table: BIOS information (type 0) with two strings, system information (type 1), the
        // end-of-table structure (type 127); 9006 / 9008 with bytes behind it
        let mut t = vec![0u8, 0x18, 0x00, 0x00, 1, 2, 0x00, 0xE8, 3, 0, 0, 0, 0, 0, 0, 0, 0, 0, 0, 0, 0, 0, 0, 0];
        t.extend_from_slice(b"SeaBIOS\0rel-1.16.2\004/01/2014\0\0");
        t.extend_from_slice(&[1, 0x1B, 0x00, 0x01, 1, 2, 3, 0, 0, 0, 0, 0, 0, 0, 0, 0, 0, 0, 0, 0, 0, 0, 0, 0, 6, 0, 0]);
        t.extend_from_slice(b"QEMU\0Standard PC\0pc-i440fx\0\0");
        t.extend_from_slice(&[127, 4, 0x00, 0x7F, 0, 0]);
        if c % 2 == 0 {
            t.extend_from_slice(&[0xEE, 0x00, 0x55, 0xAA, 0, 0, 0, 1]);
        }
        blob = t;
    } else if nul {
        let mut pkt = vec![0u8; 236];
        pkt[0] = 2; // BOOTREPLY
        pkt[1] = 1;
        pkt[2] = 6;
        pkt[4..8].copy_from_slice(&[0x39, 0x03, 0xF3, 0x26]);
        pkt[16..20].copy_from_slice(&[10, 0, 2, 15]);
        pkt[20..24].copy_from_slice(&[10, 0, 2, 2]);
        pkt[28..34].copy_from_slice(&[0x52, 0x54, 0x00, 0x12, 0x34, 0x56]);
        pkt.extend_from_slice(&[99, 130, 83, 99]);
        pkt.extend_from_slice(&[53, 1, 5, 54, 4, 10, 0, 2, 2, 51, 4, 0, 1, 0x51, 0x80, 1, 4, 255, 255, 255, 0, 3, 4, 10, 0, 2, 2, 6, 4, 10, 0, 2, 3, 255]);
        if (c - 9000) % 2 == 0 {
            pkt.resize(300, 0);
        }
        blob = pkt;
    }
    let text = if related { ["same text", "x", "", "same text"][relv].to_string() } else { text };
    const END: [u8; 8] = [0, 0, 0, 0, 8, 0, 0, 0];
    if (4000..4006).contains(&c) {
        // large payloads: totals around 64 KiB, 1 MiB, 16 MiB
        let n = [65536usize, 1 << 20, (6 << 20) + 8, (16 << 20) - 24, 16 << 20, 17 << 20][(c - 4000) % 6];
        blob = (0..n).map(|i| marker(i, slot + 50)).collect();
    } else if look {
        blob = match c - 3000 {
            0 => END.to_vec(),
            1 => [&[1u8, 0, 0, 0, 9, 0, 0, 0][..], &END[..]].concat(),
            2 => [&END[..], &END[..]].concat(),
            3 => [&[16u8, 0, 0, 0, 0, 0, 0, 0][..], &END[..]].concat(),
            _ => vec![0u8; 8],
        };
    }
    match slot {
        0 => {
            let t = CommandLineTag::new(&text);
            m.put(slot, supplied(&*t));
            b.cmdline(t)
        }
        1 => {
            let t = BootLoaderNameTag::new(&text);
            m.put(slot, supplied(&*t));
            b.bootloader(t)
        }
        2 => {
            // realistic modules lie at 16..17 MiB or 1..2 MiB
            let t = if related { ModuleTag::new(0x100_0000, 0x110_0000, &text) } else if real { if rv % 2 == 0 { ModuleTag::new(0x100_0000, 0x110_0000, &text) } else { ModuleTag::new(0x10_0000, 0x18_0000, &text) } } else { ModuleTag::new(0x1000 * (s + 1), 0x1000 * (s + 2), &text) };
            m.put(slot, supplied(&*t));
            b.add_module(t)
        }
        3 => {
            let t = if real { BasicMemoryInfoTag::new([640, 639, 636, 0][rv % 4], [130048, 0x7FEE0, 3144704, 0][rv % 4]) } else if look { BasicMemoryInfoTag::new(0, 8) } else { BasicMemoryInfoTag::new(640 + s, 0x1F000 + s) };
            m.put(slot, supplied(&t));
            b.meminfo(t)
        }
        4 => {
            let t = BootdevTag::new(0x80 + s, 1 + s, 2 + s);
            m.put(slot, supplied(&t));
            b.bootdev(t)
        }
        5 => {
            let areas: Vec<MemoryArea> = if real {
                // the classic PC map (qemu -m 128M), the same without the low area, a map starting at 1 MiB, an unsorted one
                let pc = [(0u64, 0x9FC00u64, 1u32), (0x9FC00, 0x400, 2), (0xF0000, 0x10000, 2), (0x10_0000, 0x7EE_0000, 1), (0x7FE_0000, 0x2_0000, 2), (0xFFFC_0000, 0x4_0000, 2)];
                let sel: Vec<(u64, u64, u32)> = match rv {
                    0 => pc.to_vec(),
                    1 => pc[1..].to_vec(),
                    2 => vec![pc[3], pc[4]],
                    3 => vec![pc[3], pc[0], pc[5], pc[1]],
                    // variants 4..=9: the ranges the realistic modules occupy (1..2 MiB, 16..17 MiB) reported with each
                    // area type in turn (available, reserved, ACPI, NVS, defective, a custom number)
                    k => {
                        let t = [1u32, 2, 3, 4, 5, 0x1000][k - 4];
                        vec![(0, 0x10_0000, 1), (0x10_0000, 0xF0_0000, t), (0x100_0000, 0x10_0000, t), (0x110_0000, 0x100_0000, 1)]
                    }
                };
                sel.iter().map(|&(b, l, t)| MemoryArea::new(b, l, match t { 1 => MemoryAreaType::Available, 2 => MemoryAreaType::Reserved, 3 => MemoryAreaType::AcpiAvailable, 4 => MemoryAreaType::ReservedHibernate, 5 => MemoryAreaType::Defective, x => MemoryAreaType::Custom(x) })).collect()
            } else if look { (0..=(c - 3000) % 3).map(|_| MemoryArea::new(0x8_0000_0000, 0x8_0000_0000, MemoryAreaType::Custom(0))).collect() } else { (0..=c).map(|i| MemoryArea::new(0x1000 * i as u64, 0x800 + i as u64, MemoryAreaType::Available)).collect() };
            let t = MemoryMapTag::new(&areas);
            m.put(slot, supplied(&*t));
            b.mmap(t)
        }
        6 => {
            let t = VBEInfoTag::new(0x100 + s as u16, 1, 2, 3, VBEControlInfo::default(), VBEModeInfo::default());
            m.put(slot, supplied(&t));
            b.vbe(t)
        }
        7 => {
            let t = FramebufferTag::new(0xFD00_0000 + s as u64, 4096, 1024, 768, 32, if c % 2 == 0 { FramebufferType::Text } else { FramebufferType::RGB { red: FramebufferField { position: 16, size: 8 }, green: FramebufferField { position: 8, size: 8 }, blue: FramebufferField { position: 0, size: 8 } } });
            m.put(slot, supplied(&*t));
            b.framebuffer(t)
        }
        8 => {
            let t = ElfSectionsTag::new(0, 64, 0, &blob);
            m.put(slot, supplied(&*t));
            b.elf_sections(t)
        }
        9 => {
            let t = ApmTag::new(0x0102 + s as u16, 2, 3, 4, 5, 6, 7, 8, 9);
            m.put(slot, supplied(&t));
            b.apm(t)
        }
        10 => {
            let t = EFISdt32Tag::new(if related { 0x7FF0_0000 } else { 0x7000_0000 + s });
            m.put(slot, supplied(&t));
            b.efi32(t)
        }
        11 => {
            let t = EFISdt64Tag::new(if related { 0x7FF0_0000 } else if look { 0x8_0000_0000 } else { 0x1_7000_0000 + s as u64 });
            m.put(slot, supplied(&t));
            b.efi64(t)
        }
        12 => {
            let t = SmbiosTag::new(3, s as u8, &blob);
            m.put(slot, supplied(&*t));
            b.add_smbios(t)
        }
        13 => {
            let t = if related {
                // revision 0 / 2, checksum byte chosen so that the 20 bytes sum to 0
                let rev = [0u8, 2, 2, 0][relv];
                let sum: u32 = b"RSD PTR BOCHS ".iter().map(|&x| x as u32).sum::<u32>() + rev as u32 + [0x00u32, 0x00, 0xFE, 0x07].iter().sum::<u32>();
                RsdpV1Tag::new((0u32.wrapping_sub(sum) & 0xFF) as u8, *b"BOCHS ", rev, 0x07FE_0000)
            } else {
                RsdpV1Tag::new(s as u8, *b"OEMID1", 0, 0x1234_0000 + s)
            };
            m.put(slot, supplied(&t));
            b.rsdpv1(t)
        }
        14 => {
            let t = if related {
                let rev = [0u8, 2, 2, 0][relv];
                let sum: u32 = b"RSD PTR BOCHS ".iter().map(|&x| x as u32).sum::<u32>() + rev as u32 + [0x00u32, 0x00, 0xFE, 0x07].iter().sum::<u32>();
                let cs = (0u32.wrapping_sub(sum) & 0xFF) as u8;
                // length 36, XSDT at 0x07FE1000: extended checksum makes all 36 bytes sum to 0
                let ext_sum: u32 = 36 + 0x00 + 0x10 + 0xFE + 0x07;
                RsdpV2Tag::new(cs, *b"BOCHS ", rev, 0x07FE_0000, 36, 0x07FE_1000, (0u32.wrapping_sub(ext_sum) & 0xFF) as u8)
            } else {
                RsdpV2Tag::new(s as u8, *b"OEMID2", 2, 0x1234_0000, 36, 0x5678_0000 + s as u64, 9)
            };
            m.put(slot, supplied(&t));
            b.rsdpv2(t)
        }
        15 => {
            let map: Vec<u8> = if (7000..7006).contains(&c) { (0..[44usize, 49, 52, 63, 1, 0][c - 7000]).map(|i| marker(i, 77)).collect() } else if look { END.iter().copied().cycle().take(48 * (1 + (c - 3000) % 3)).collect() } else { vec![0x5Au8.wrapping_add(s as u8); 48 * ((c % 1000) + 1)] };
            let t = EFIMemoryMapTag::new_from_map(48, 1, &map);
            m.put(slot, supplied(&*t));
            b.efi_mmap(t)
        }
        16 => {
            let t = NetworkTag::new(&blob);
            m.put(slot, supplied(&*t));
            b.network(t)
        }
        17 => {
            let t = EFIBootServicesNotExitedTag::new();
            m.put(slot, supplied(&t));
            b.efi_bs(t)
        }
        18 => {
            let t = EFIImageHandle32Tag::new(if related { 0x7FF0_0000 } else { 0x6000_0000 + s });
            m.put(slot, supplied(&t));
            b.efi32_ih(t)
        }
        19 => {
            let t = EFIImageHandle64Tag::new(if related { 0x7FF0_0000 } else if look { 0x8_0000_0000 } else { 0x2_6000_0000 + s as u64 });
            m.put(slot, supplied(&t));
            b.efi64_ih(t)
        }
        20 => {
            let t = ImageLoadPhysAddrTag::new(if related { 0x100_0000 } else { 0x0020_0000 + s });
            m.put(slot, supplied(&t));
            b.image_load_addr(t)
        }
        _ => {
            // seeds 6000..: custom types whose low half-word is a specified tag number
            let typ = if (6000..6014).contains(&c) { [0x0001_0003u32, 0x8000_0000, 0xABCD_0015, 0x0001_0000, 0xFFFF_0001, 0x0100_0008, 0x0002_0011, 0xFFFF_FFFF, 22, 23, 31, 32, 50, 0x1332][c - 6000] } else if c >= 2000 { 0x2000 } else { 0x1337 + s };
            let t = new_boxed::<DynSizedStructure<TagHeader>>(TagHeader::new(TagType::Custom(typ), 0), &[&blob]);
            m.put(slot, supplied(&*t));
            b.add_custom_tag(t)
        }
    }
}

fn judge(ctx: &mut Ctx, what: &dyn Fn() -> String, m: &Model, built: &[u8], addr: usize) {
    let mut bad: Vec<String> = vec![];
    if addr % 8 != 0 {
        bad.push("not 8-aligned".into());
    }
    if built.len() < 16 || built.len() % 8 != 0 {
        ctx.violation("c06/length", || format!("{}: built structure has {} bytes", what(), built.len()));
        return;
    }
    if rd32(built, 0) as usize != built.len() {
        bad.push(format!("declares total size {} but is {} bytes long", rd32(built, 0), built.len()));
    }
    // load must succeed
    match ctx.call("load", || unsafe { BootInformation::load(built.as_ptr() as *const BootInformationHeader).map(|b| b.total_size()) }) {
        Out::Val(Ok(_)) => {}
        other => bad.push(format!("load fails: {:?}", other)),
    }
    if !bad.is_empty() {
        ctx.violation("c06/well-formedness", || format!("{}: {}", what(), bad.join("; ")));
        return;
    }
    let (items, refuse) = walk(&built[8..]);
    if refuse {
        ctx.violation("c06/walk", || format!("{}: the tag walk of the built structure is malformed", what()));
        return;
    }
    // transcript: the tags up to their sizes (padding bytes of sized tags are uninitialised memory)
    for i in &items {
        ctx.tx.bytes(&built[8 + i.off..8 + i.off + i.size]);
    }
    // the library's own walk of the built structure (tags() and module_tags() in every state) sees exactly these tags
    {
        let base = built.as_ptr() as usize;
        let r = ctx.call("tags() of the built structure", || {
            let b = unsafe { BootInformation::load(built.as_ptr() as *const BootInformationHeader) }.unwrap();
            let offs: Vec<usize> = b.tags().map(|t| t as *const _ as *const u8 as usize - base).collect();
            let cnt = b.tags().count();
            let last = b.tags().last().map(|t| t as *const _ as *const u8 as usize - base);
            let mut it = b.tags();
            let _ = it.next();
            let cnt1 = it.count();
            let mut d = b.tags();
            while d.next().is_some() {}
            let drained = (d.clone().last().is_none(), d.count());
            let mods: Vec<usize> = b.module_tags().map(|t| t as *const _ as *const u8 as usize - base).collect();
            (offs, cnt, last, cnt1, drained, mods, b.module_tags().count())
        });
        let want: Vec<usize> = items.iter().map(|i| 8 + i.off).collect();
        let wmods: Vec<usize> = items.iter().filter(|i| i.typ == 3).map(|i| 8 + i.off).collect();
        let n = want.len();
        match r {
            Out::Val((offs, cnt, last, cnt1, drained, mods, mcnt)) => {
                if offs != want || cnt != n || last != want.last().copied() || cnt1 != n.saturating_sub(1) || drained != (true, 0) || mods != wmods || mcnt != wmods.len() {
                    ctx.violation("c06/library-walk", || format!("{}: tags() of the built structure yields {} tags (count() {}, last() {:?}, count() after one next() {}, drained (last() is None, count()) {:?}), module_tags() {} (count() {}); the built bytes hold {} tags, {} of them modules", what(), offs.len(), cnt, last, cnt1, drained, mods.len(), mcnt, n, wmods.len()));
                    return;
                }
            }
            Out::Panic => {
                ctx.violation("c06/library-walk", || format!("{}: tags() / module_tags() of the built structure panicked", what()));
                return;
            }
        }
    }
    // end tag: exactly one, the final 8 bytes
    let ends = items.iter().filter(|i| i.typ == 0).count();
    let last = items.last();
    if ends != 1 || last.map(|l| (l.typ, l.size, l.off + 8 + 8)) != Some((0, 8, built.len())) {
        ctx.violation("c06/end-tag", || format!("{}: {} end tags, last tag {:?}; exactly one end tag must be the final 8 bytes", what(), ends, last));
        return;
    }
    // the walk without the end tag must be exactly the model's tags
    let mut walked: Vec<&[u8]> = items[..items.len() - 1].iter().map(|i| &built[8 + i.off..8 + i.off + i.size]).collect();
    let mut want: Vec<(&Vec<u8>, usize)> = vec![];
    for s in 0..NSLOTS {
        if let Some(b) = &m.single[s] {
            want.push((b, s));
        }
        for b in &m.multi[s] {
            want.push((b, s));
        }
    }
    // repeatable kinds: call order preserved
    for s in 0..NSLOTS {
        if REPEATABLE[s] && !m.multi[s].is_empty() {
            let typ_of = |b: &[u8]| rd32(b, 0);
            let kinds: Vec<u32> = m.multi[s].iter().map(|b| typ_of(b)).collect();
            let got: Vec<&[u8]> = walked.iter().copied().filter(|w| if s == 21 { typ_of(w) > 21 } else { kinds.contains(&typ_of(w)) }).collect();
            let exp: Vec<&[u8]> = m.multi[s].iter().map(|b| &b[..]).collect();
            if got != exp {
                ctx.violation(&format!("c06/repeatable-order/{}", SLOT_NAMES[s]), || format!("{}: the {} tags come back as {} tags (order or content differs from the {} supplied in call order)", what(), SLOT_NAMES[s], got.len(), exp.len()));
                return;
            }
        }
    }
    for (w, s) in &want {
        match walked.iter().position(|x| *x == &w[..]) {
            Some(i) => {
                walked.remove(i);
            }
            None => {
                ctx.violation(&format!("c06/dropped-or-altered/{}", SLOT_NAMES[*s]), || format!("{}: the supplied {} tag ({} bytes) is not in the built structure byte-identically", what(), SLOT_NAMES[*s], w.len()));
                return;
            }
        }
    }
    if !walked.is_empty() {
        let t = rd32(walked[0], 0);
        ctx.violation(&format!("c06/extra-tag/{}", bi::kind_name(t)), || format!("{}: the built structure contains {} tag(s) that were not supplied (first: type {}, {} bytes)", what(), walked.len(), t, walked[0].len()));
        return;
    }
    ctx.class("build:exact");
}

const START_DEFAULT: usize = usize::MAX;

fn run_program(ctx: &mut Ctx, prog: &[(usize, usize)], what: &dyn Fn() -> String) {
    {
        let mut m = Model::new();
        let r = ctx.call("builder calls + build", || {
            // a first element (START_DEFAULT, _) stands for "start from Builder::default() instead of Builder::new()"
            let mut b = if prog.first().map(|p| p.0) == Some(START_DEFAULT) { Builder::default() } else { Builder::new() };
            for &(slot, c) in prog {
                if slot != START_DEFAULT {
                    b = call(b, &mut m, slot, c);
                }
            }
            b.build()
        });
        match r {
            Out::Panic => {
                ctx.violation("c06/panic", || format!("{}: builder panicked", what()));
                return;
            }
            Out::Val(s) => {
                let bytes = s.as_bytes();
                judge(ctx, what, &m, &bytes, bytes.as_ptr() as usize);
            }
        }
    }
    // O7: a second, harness-free execution of the same program must leave no allocation behind
    let live0 = ledger::live();
    let r = ctx.call("build (ledger)", || {
        let mut m = Model::new();
        let mut b = if prog.first().map(|p| p.0) == Some(START_DEFAULT) { Builder::default() } else { Builder::new() };
        for &(slot, c) in prog {
            if slot != START_DEFAULT {
                b = call(b, &mut m, slot, c);
            }
        }
        let s = b.build();
        s.as_bytes().len()
    });
    let live1 = ledger::live();
    if !r.is_panic() && live1 != live0 {
        // not part of the property's statement (C16 states the allocation discipline of new_boxed): recorded only
        ctx.class("ledger:allocations-left-live");
    }
}

fn run(ctx: &mut Ctx) {
    // warm up lazily allocated runtime structures so that the ledger baseline is stable
    run_warm();
    // (a) all subsets
    let all = !ctx.dev_profile();
    ctx.bound("subsets", if all { "all 2^22 subsets of the builder slots, canonical call order, one fixed distinct content per slot" } else { "all subsets of size <= 3 and >= 19 of the 22 builder slots (dev profile); the release configuration enumerates all 2^22" });
    for mask in 0u32..(1 << NSLOTS) {
        let n = mask.count_ones();
        if !all && n > 3 && n < 19 {
            continue;
        }
        let describe = || J::obj().set("part", "subset").set("slots", J::Arr((0..NSLOTS).filter(|s| mask >> s & 1 == 1).map(|s| J::from(SLOT_NAMES[s])).collect()));
        ctx.leaf(describe, |ctx| {
            ctx.state_direct();
            ctx.nontrivial();
            let prog: Vec<(usize, usize)> = (0..NSLOTS).filter(|s| mask >> s & 1 == 1).map(|s| (s, 0)).collect();
            run_program(ctx, &prog, &|| format!("subset {:#x}", mask));
        });
    }
    // (b) call sequences
    let depth = if ctx.quick() { 3 } else if ctx.dev_profile() { 4 } else { 5 };
    ctx.bound("sequences", format!("all call sequences of length <= {} over 44 symbols (22 builder calls x 2 distinguishable contents): orders, repeats, overriding", depth));
    for len in 0..=depth {
        let total = 44usize.pow(len as u32);
        for code in 0..total {
            let mut prog = vec![];
            let mut c = code;
            for _ in 0..len {
                prog.push(((c % 44) / 2, (c % 44) % 2));
                c /= 44;
            }
            let describe = || J::obj().set("part", "sequence").set("calls", J::Arr(prog.iter().map(|(s, c)| J::from(format!("{}#{}", SLOT_NAMES[*s], c))).collect()));
            ctx.leaf(describe, |ctx| {
                ctx.state_direct();
                ctx.nontrivial();
                run_program(ctx, &prog, &|| format!("calls {:?}", prog));
            });
        }
    }
    // (c) contents: every length residue for every DST slot, between two other tags
    ctx.bound("contents", "every DST slot with content seeds 0..=17 and 50..=52, 13107, 13108 (string / blob / array lengths covering every padding residue and the 8- and 16-bit counter boundaries: 253..263, 65538, 65543 bytes), called between meminfo and image_load_addr; custom tags with three type numbers; add_custom_tag with a specified type must panic (documented)");
    for slot in [0usize, 1, 2, 5, 7, 8, 12, 15, 16, 21] {
        for c in (0..=17usize).chain([50, 51, 52, 13107, 13108]) {
            let prog = vec![(3usize, 0usize), (slot, c), (20, 1), (slot, (c + 1) % 18)];
            let describe = || J::obj().set("part", "contents").set("slot", SLOT_NAMES[slot]).set("content_seed", c);
            ctx.leaf(describe, |ctx| {
                ctx.state_direct();
                ctx.nontrivial();
                run_program(ctx, &prog, &|| format!("contents {} seed {}", SLOT_NAMES[slot], c));
            });
        }
    }
    // long histories: repeatable kinds beyond the sizes where small-vector / sort / capacity thresholds sit
    ctx.bound("long_histories", "N tags of each repeatable kind (modules, SMBIOS, custom) for N in {2,3,8,16,17,31,32,33,34,48,64,65,100,300} with distinct contents, alone / preceded / followed by single-valued calls / with all 19 single-valued slots set, and two repeatable kinds interleaved");
    for rep in [2usize, 12, 21] {
        for n in [2usize, 3, 8, 16, 17, 31, 32, 33, 34, 48, 64, 65, 100, 300] {
            for companion in 0..6 {
                let mut prog: Vec<(usize, usize)> = vec![];
                let singles: Vec<usize> = (0..NSLOTS).filter(|s| !REPEATABLE[*s]).collect();
                match companion {
                    1 => prog.push((3, 0)),
                    2 => prog.push((20, 0)),
                    4 => prog.extend(singles.iter().map(|s| (*s, 1))),
                    _ => {}
                }
                for i in 0..n {
                    prog.push((rep, i));
                    if companion == 5 {
                        // interleave with another repeatable kind
                        prog.push((if rep == 2 { 12 } else { 2 }, i));
                    }
                }
                if companion == 3 {
                    prog.push((3, 1));
                }
                let describe = || J::obj().set("part", "long-history").set("repeatable_slot", SLOT_NAMES[rep]).set("count", n).set("companion", ["none", "meminfo before", "image_load_addr before", "meminfo after", "all single-valued slots before", "interleaved with another repeatable kind"][companion]);
                ctx.leaf(describe, |ctx| {
                    ctx.state_direct();
                    ctx.nontrivial();
                    run_program(ctx, &prog, &|| format!("{} x {} ({})", n, SLOT_NAMES[rep], companion));
                });
            }
        }
    }
    // special contents: empty texts / payloads, custom tags sharing a type number (equal and different payloads)
    ctx.bound("special_contents", "empty module command line, empty SMBIOS / custom / network payloads, custom tags that share one type number with equal and with different payloads, each alone, repeated and between other tags");
    for prog in [
        vec![(2usize, 1000usize)], vec![(2, 0), (2, 1000), (2, 1)], vec![(2, 1000), (2, 1000)],
        vec![(12, 1000)], vec![(12, 1), (12, 1000), (12, 0)],
        vec![(21, 1000)], vec![(21, 0), (21, 1000), (21, 1)], vec![(21, 1000), (21, 1000)],
        vec![(21, 2000), (21, 2001)], vec![(21, 2001), (21, 2000), (21, 2001)], vec![(21, 2003), (21, 2003)], vec![(3, 0), (21, 2000), (21, 5), (21, 2000), (20, 0)],
        vec![(16, 1000)], vec![(0, 1000)], vec![(1, 1000), (0, 1000), (2, 1000)], vec![(8, 1000), (5, 0), (15, 1000)],
    ] {
        let describe = || J::obj().set("part", "special-contents").set("calls", J::Arr(prog.iter().map(|(s, c)| J::from(format!("{}#{}", SLOT_NAMES[*s], c))).collect()));
        ctx.leaf(describe, |ctx| {
            ctx.state_direct();
            ctx.nontrivial();
            run_program(ctx, &prog, &|| format!("calls {:?}", prog));
        });
    }
    // contents that look like structure
    ctx.bound("lookalike_contents", "blob kinds (ELF sections, SMBIOS, network, custom) with payloads made of end-tag images, a tag header + end-tag image, a whole 16-byte boot information, zeros; basic meminfo (0, 8), 64-bit pointers 0x8_0000_0000, memory areas and EFI descriptors made of end-tag images (tag bytes end in 00 00 00 00 08 00 00 00); each alone (the last tag before the end tag), followed by another tag, repeated");
    for slot in [3usize, 5, 8, 11, 12, 15, 16, 19, 21] {
        for v in 0..5usize {
            for shape in 0..3 {
                let me = (slot, 3000 + v);
                let prog: Vec<(usize, usize)> = match shape {
                    0 => vec![me],
                    1 => vec![me, (20, 1), (0, 1)],
                    _ => vec![me, (if REPEATABLE[slot] { slot } else { 21 }, 3000 + (v + 1) % 5), me],
                };
                let describe = || J::obj().set("part", "lookalike").set("calls", J::Arr(prog.iter().map(|(s, c)| J::from(format!("{}#{}", SLOT_NAMES[*s], c))).collect()));
                ctx.leaf(describe, |ctx| {
                    ctx.state_direct();
                    ctx.nontrivial();
                    run_program(ctx, &prog, &|| format!("calls {:?}", prog));
                });
            }
        }
    }
    // texts with NUL bytes in them and protocol packets as blobs: stored as supplied
    ctx.bound("nul_texts_and_packets", "command line, loader name and module with the texts {\"console=ttyS0<NUL>root=/dev/sda1\", \"GRUB 2.12<NUL><NUL>\", \"<NUL>\", \"a<NUL>\", \"<NUL><NUL>x\", \"a<NUL>b<NUL>\"} and with texts ending in a space, a tab, a line feed; network, SMBIOS, custom and ELF-sections tags holding a DHCP ACK (BOOTP header, magic cookie, options, END) padded with zeros to 300 bytes and ending exactly at END, and an SMBIOS structure table (types 0, 1, 127 with their string sets) with and without bytes behind the end-of-table structure: each alone, between two other tags, and all text kinds together");
    {
        let mut progs: Vec<Vec<(usize, usize)>> = vec![];
        for v in 9000..9010usize {
            for slot in [0usize, 1, 2, 16, 12, 21, 8] {
                progs.push(vec![(slot, v)]);
                progs.push(vec![(3, 1), (slot, v), (20, 1)]);
            }
            progs.push(vec![(0, v), (1, v), (2, v), (2, v), (16, v)]);
        }
        for prog in progs {
            let describe = || J::obj().set("part", "nul-texts-and-packets").set("calls", J::Arr(prog.iter().map(|(s, c)| J::from(format!("{}#{}", SLOT_NAMES[*s], c))).collect()));
            ctx.leaf(describe, |ctx| {
                ctx.state_direct();
                ctx.nontrivial();
                run_program(ctx, &prog, &|| format!("calls {:?}", prog));
            });
        }
    }
    // many minimal tags: structures made of 8-, 12- and 16-byte tags only (the smallest average tag size possible)
    ctx.bound("small_tags", "every subset of {EFI boot services (8 bytes), EFI 32-bit table (12), EFI 64-bit table (16), image handle 32 / 64, load base (12), basic memory info (16)} x 0..=6 custom tags with an empty payload (8 bytes each)");
    for mask in 0..128usize {
        for k in 0..=6usize {
            let slots = [17usize, 10, 11, 18, 19, 20, 3];
            let mut prog: Vec<(usize, usize)> = slots.iter().enumerate().filter(|(i, _)| mask >> i & 1 == 1).map(|(_, s)| (*s, 1usize)).collect();
            for j in 0..k {
                prog.push((21, 1000 + j));
            }
            let describe = || J::obj().set("part", "small-tags").set("calls", J::Arr(prog.iter().map(|(s, c)| J::from(format!("{}#{}", SLOT_NAMES[*s], c))).collect()));
            ctx.leaf(describe, |ctx| {
                ctx.state_direct();
                ctx.nontrivial();
                run_program(ctx, &prog, &|| format!("calls {:?}", prog));
            });
        }
    }
    // related contents: two tags that say the same thing are still two tags
    ctx.bound("related_contents", "slots {command line, loader name, module, EFI system table 32 / 64, ACPI 1.0 / 2.0 RSDP, EFI image handle 32 / 64, load base address} with related contents in 4 variants (the same text in all three text kinds; the same pointer value in both widths; an ACPI 1.0 RSDP that is the prefix of the ACPI 2.0 one, checksums valid, revisions 0 / 2; load base = module start): every ordered pair, every pair with a module in between, and all ten together in two orders");
    {
        let rel: [usize; 10] = [0, 1, 2, 10, 11, 13, 14, 18, 19, 20];
        let mut progs: Vec<Vec<(usize, usize)>> = vec![];
        for v in 8000..8004usize {
            for &a in &rel {
                for &b in &rel {
                    if a != b || REPEATABLE[a] {
                        progs.push(vec![(a, v), (b, v)]);
                        progs.push(vec![(a, v), (2, 1), (b, v)]);
                    }
                }
            }
            progs.push(rel.iter().map(|&x| (x, v)).collect());
            progs.push(rel.iter().rev().map(|&x| (x, v)).collect());
        }
        for prog in progs {
            let describe = || J::obj().set("part", "related-contents").set("calls", J::Arr(prog.iter().map(|(s, c)| J::from(format!("{}#{}", SLOT_NAMES[*s], c))).collect()));
            ctx.leaf(describe, |ctx| {
                ctx.state_direct();
                ctx.nontrivial();
                run_program(ctx, &prog, &|| format!("calls {:?}", prog));
            });
        }
    }
    // realistic contents and relations between tags: what one tag says must not change what happens to another
    ctx.bound("realistic_contents", "memory maps as a PC firmware reports them (4 variants: complete, without the low area, from 1 MiB, unsorted) and 6 maps that report the modules' ranges with each area type in turn, modules at 1 MiB and at 16 MiB (map before and after the modules), typical lower/upper memory values, loader names and command lines: each alone, before and after every other builder call, and all of them together with each single call left out");
    {
        let dict: [usize; 5] = [5, 3, 0, 1, 2];
        let mut progs: Vec<Vec<(usize, usize)>> = vec![];
        for &d in &dict {
            for v in 0..(if d == 5 { 10usize } else { 4 }) {
                progs.push(vec![(d, 5000 + v)]);
                for s in 0..NSLOTS {
                    if s != d {
                        progs.push(vec![(d, 5000 + v), (s, 1)]);
                        progs.push(vec![(s, 1), (d, 5000 + v)]);
                    }
                }
            }
        }
        for mv in 0..10usize {
            for modv in 0..2usize {
                progs.push(vec![(5, 5000 + mv), (2, 5000 + modv)]);
                progs.push(vec![(2, 5000 + modv), (5, 5000 + mv)]);
                progs.push(vec![(5, 5000 + mv), (2, 5000 + modv), (2, 5001 - modv)]);
                progs.push(vec![(2, 5000 + modv), (5, 5000 + mv), (2, 5001 - modv)]);
            }
        }
        for v in 0..4usize {
            let full: Vec<(usize, usize)> = (0..NSLOTS).map(|s| (s, if dict.contains(&s) { 5000 + v } else { 1 })).collect();
            progs.push(full.clone());
            for leave in 0..NSLOTS {
                progs.push(full.iter().copied().filter(|p| p.0 != leave).collect());
            }
        }
        for prog in progs {
            let describe = || J::obj().set("part", "realistic").set("calls", J::Arr(prog.iter().map(|(s, c)| J::from(format!("{}#{}", SLOT_NAMES[*s], c))).collect()));
            ctx.leaf(describe, |ctx| {
                ctx.state_direct();
                ctx.nontrivial();
                run_program(ctx, &prog, &|| format!("calls {:?}", prog));
            });
        }
    }
    ctx.bound("custom_type_numbers", "custom tags whose type number has a specified tag number (0..=21) in its low half-word and other bits above it (8 values incl. 0x00010003, 0x80000000, 0xFFFFFFFF) and small custom numbers (22, 23, 31, 32, 50, 0x1332): alone, two different ones, the same one twice, and between other tags");
    for v in 0..14usize {
        for prog in [vec![(21usize, 6000 + v)], vec![(21, 6000 + v), (21, 6000 + (v + 1) % 14)], vec![(21, 6000 + v), (21, 6000 + v)], vec![(15, 1), (21, 6000 + v), (21, 6000 + v), (17, 0)], vec![(2, 1), (21, 6000 + v), (0, 1)]] {
            let describe = || J::obj().set("part", "custom_type_numbers").set("calls", J::Arr(prog.iter().map(|(s, c)| J::from(format!("{}#{}", SLOT_NAMES[*s], c))).collect()));
            ctx.leaf(describe, |ctx| {
                ctx.state_direct();
                ctx.nontrivial();
                run_program(ctx, &prog, &|| format!("calls {:?}", prog));
            });
        }
    }
    ctx.bound("default_start_and_odd_maps", "every program of up to two calls started from Builder::default() instead of Builder::new() (the two must be the same builder); EFI memory maps of 44, 49, 52, 63, 1 and 0 bytes (the tag's size is then not a multiple of 8) alone and between other tags");
    {
        let mut progs: Vec<Vec<(usize, usize)>> = vec![vec![(START_DEFAULT, 0)]];
        for a in 0..NSLOTS {
            progs.push(vec![(START_DEFAULT, 0), (a, 1)]);
            for b2 in 0..NSLOTS {
                if (a + b2) % 5 == 0 {
                    progs.push(vec![(START_DEFAULT, 0), (a, 1), (b2, 2)]);
                }
            }
        }
        for v in 0..6usize {
            progs.push(vec![(15, 7000 + v)]);
            progs.push(vec![(0, 1), (15, 7000 + v), (20, 1)]);
        }
        for prog in progs {
            let describe = || J::obj().set("part", "default_start_and_odd_maps").set("calls", J::Arr(prog.iter().map(|(s, c)| J::from(if *s == START_DEFAULT { "Builder::default()".to_string() } else { format!("{}#{}", SLOT_NAMES[*s], c) })).collect()));
            ctx.leaf(describe, |ctx| {
                ctx.state_direct();
                ctx.nontrivial();
                run_program(ctx, &prog, &|| format!("calls {:?}", prog));
            });
        }
    }
    // large structures
    ctx.bound("large_structures", "blob kinds (SMBIOS, network, custom) with payloads of 64 KiB, 1 MiB, 6 MiB, 16 MiB - 24, 16 MiB and 17 MiB, alone and with a module in front; three 6 MiB payloads whose sum crosses 16 MiB");
    {
        let mut progs: Vec<Vec<(usize, usize)>> = vec![];
        for slot in [12usize, 16, 21] {
            for v in 0..6usize {
                if v >= 3 && slot != 21 {
                    continue;
                }
                progs.push(vec![(slot, 4000 + v)]);
                progs.push(vec![(2, 1), (slot, 4000 + v), (20, 0)]);
            }
        }
        progs.push(vec![(2, 1), (12, 4002), (16, 4002), (21, 4002)]);
        for prog in progs {
            let describe = || J::obj().set("part", "large").set("calls", J::Arr(prog.iter().map(|(s, c)| J::from(format!("{}#{}", SLOT_NAMES[*s], c))).collect()));
            ctx.leaf(describe, |ctx| {
                ctx.state_direct();
                ctx.nontrivial();
                run_program(ctx, &prog, &|| format!("calls {:?}", prog));
            });
        }
    }
    for typ in 0..=21u32 {
        ctx.leaf(
            || J::obj().set("part", "custom-with-specified-type").set("type", typ),
            |ctx| {
                ctx.state_direct();
                ctx.nontrivial();
                let r = ctx.call("add_custom_tag(specified type)", || {
                    let t = new_boxed::<DynSizedStructure<TagHeader>>(TagHeader::new(TagType::from(typ), 0), &[&[1, 2, 3]]);
                    Builder::new().add_custom_tag(t).build().as_bytes().len()
                });
                match r {
                    Out::Panic => ctx.class("custom:refused"),
                    Out::Val(_) => ctx.violation("c06/custom-specified-type", || format!("add_custom_tag accepted a tag of the specified type {}", typ)),
                }
            },
        );
    }
}

fn run_warm() {
    // (a panic of the library in here is not a harness failure: the same calls are judged inside the leaves)
    let _ = std::panic::catch_unwind(|| {
        let mut m = Model::new();
        let mut b = Builder::new();
        for s in 0..NSLOTS {
            b = call(b, &mut m, s, 1);
        }
        let _ = b.build();
    });
    let _ = std::panic::catch_unwind(|| panic!("warm"));
}

fn main() {
    main_wrap("C06", run);
}
