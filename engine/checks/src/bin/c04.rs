//! C04 - typed getters select the first matching tag and decode every
//! specified field.
use mbvlib::battery::{self, Bat, BatOpts, Rec, Val};
use mbvlib::spec::bi;
use mbvlib::spec::*;
use mbvlib::*;
use multiboot2::{BootInformation, BootInformationHeader};

const PERT: [u8; 10] = [0x00, 0x01, 0x02, 0x04, 0x08, 0x10, 0x20, 0x40, 0x80, 0xFF];
const OPTS: BatOpts = BatOpts { vbe_memory_model: true, elf_names: false };

fn variants(kind: u32) -> Vec<Vec<u8>> {
    match kind {
        bi::FRAMEBUFFER => {
            let mut v = vec![bi::sample(kind, 1, 0), bi::sample(kind, 2, 1), bi::sample(kind, 3, 2)];
            // the pixel formats real firmware reports (a dictionary of realistic field combinations: quirk
            // handling in a parser is keyed on exactly these)
            for (bpp, info) in [(32u8, [16u8, 8, 8, 8, 0, 8]), (24, [16, 8, 8, 8, 0, 8]), (32, [0, 8, 8, 8, 16, 8]), (16, [11, 5, 5, 6, 0, 5]), (16, [10, 5, 5, 5, 0, 5]), (15, [10, 5, 5, 5, 0, 5]), (30, [20, 10, 10, 10, 0, 10])] {
                v.push(bi::enc_framebuffer(0xFD00_0000, 4096, 1024, 768, bpp, 1, &info));
            }
            v
        }
        bi::CMDLINE | bi::BOOTLOADER | bi::MODULE | bi::SMBIOS | bi::NETWORK => vec![bi::sample(kind, 1, 5), bi::sample(kind, 2, 0)],
        bi::MMAP | bi::EFI_MMAP => vec![bi::sample(kind, 1, 2), bi::sample(kind, 2, 0)],
        bi::ELF => {
            // one 64-bit and one 32-bit table
            let mut s = Vec::new();
            for i in 0..2u32 {
                s.extend(bi::enc_shdr32(i, 1 + i, 0xABC0_0003 + i, 0x0010_0000 + i, 0x2000 + i, 0x0300 + i, 0, 0, 4, 0));
            }
            vec![bi::sample(kind, 1, 2), bi::enc_elf(2, 40, 1, &s)]
        }
        _ => vec![bi::sample(kind, 1, 0)],
    }
}

/// Perturbations that would leave the spec-conformant space (enumerated
/// fields, counts and strides are kept legal: DESIGN 4, C04 (a)).
fn legal(kind: u32, img: &[u8], p: usize, v: u8) -> bool {
    match kind {
        bi::MMAP => !(8..12).contains(&p),
        bi::VBE => !(p == 16 + 512 + 27 && v > 7),
        bi::FRAMEBUFFER => p != 29 && !(img[29] == 0 && (32..34).contains(&p)),
        bi::ELF => !(8..20).contains(&p),
        bi::EFI_MMAP => !(8..16).contains(&p),
        bi::ACPI2 => {
            if (28..32).contains(&p) {
                let mut t = img.to_vec();
                t[p] = v;
                rd32(&t, 28) <= 36
            } else {
                true
            }
        }
        _ => true,
    }
}

fn other_kind(k: u32) -> u32 {
    if k == bi::MEMINFO {
        bi::BOOTDEV
    } else {
        bi::MEMINFO
    }
}

fn first_diff(actual: &[Rec], expected: &[Rec]) -> Option<(usize, String)> {
    let a: Vec<&Rec> = actual.iter().filter(|r| !r.name.contains("Debug")).collect();
    for i in 0..a.len().max(expected.len()) {
        match (a.get(i), expected.get(i)) {
            (Some(x), Some(y)) if *x == y => {}
            (x, y) => return Some((i, format!("record #{}: got {:?}, reference {:?}", i, x, y))),
        }
    }
    None
}

/// Run the getter of `kind` on the region and compare with the reference for
/// the tag expected at region offset `want` (None = getter must return nothing).
fn check_getter(ctx: &mut Ctx, arena: &Arena, region: &[u8], kind: u32, want: Option<usize>, part: &'static str) {
    arena.fill(arena::FILL_A);
    let p = arena.place_right(region);
    let Out::Val(Ok(bi)) = ctx.call("load", || unsafe { BootInformation::load(p as *const BootInformationHeader) }) else {
        ctx.violation(&format!("c04/{}/load", part), || "load failed on a region of spec-conformant tags".into());
        return;
    };
    let recs = {
        let mut b = Bat::new(ctx, p);
        // derived-arithmetic accessors are called only where their operands do not overflow (DESIGN 6)
        b.derived = want.map_or(true, |off| decode::derived_ok(kind, &region[off..]));
        battery::getter_level(&mut b, kind, &bi, p, OPTS);
        b.recs
    };
    battery::feed(ctx, &recs);
    let expected: Vec<Rec> = match want {
        None => vec![Rec { name: "getter", val: Val::E(0) }],
        Some(off) => {
            let t = &region[off..];
            let mut e = vec![Rec { name: "getter", val: Val::U(off as u64) }];
            if kind == bi::FRAMEBUFFER && t[29] > 2 {
                e[0].val = Val::E(0x100 + t[29] as u32);
            } else {
                e.extend(decode::tag(kind, t, decode::derived_ok(kind, t), true));
            }
            e
        }
    };
    // derived-arithmetic accessors are left out when they would overflow (DESIGN 6)
    let recs: Vec<Rec> = if let Some(off) = want {
        if !decode::derived_ok(kind, &region[off..]) {
            recs.into_iter().filter(|r| !matches!(r.name, "module_size" | "area.end_address" | "section.end_address")).collect()
        } else {
            recs
        }
    } else {
        recs
    };
    match first_diff(&recs, &expected) {
        None => ctx.class(if want.is_some() { "getter:decoded" } else { "getter:absent" }),
        Some((i, msg)) => {
            let name = recs.iter().filter(|r| !r.name.contains("Debug")).nth(i).map(|r| r.name).or(expected.get(i).map(|r| r.name)).unwrap_or("?");
            let panicked = recs.iter().any(|r| r.val == Val::Panic);
            ctx.violation(&format!("c04/{}/{}/{}{}", part, bi::kind_name(kind), name, if panicked { "/panic" } else { "" }), || format!("{} getter: {}", bi::kind_name(kind), msg));
        }
    }
}

fn first_of(region: &[u8], typ: u32) -> Option<usize> {
    let (items, _) = walk(&region[8..]);
    items.iter().find(|i| i.typ == typ).map(|i| i.off + 8)
}

fn expected_for(region: &[u8], kind: u32) -> Option<usize> {
    if kind == bi::EFI_MMAP && first_of(region, bi::EFI_BS).is_some() {
        return None;
    }
    first_of(region, kind)
}

fn run(ctx: &mut Ctx) {
    let arena = Arena::new(3);
    let big_arena0 = Arena::new(6);
    let quick = ctx.quick() || ctx.dev_profile();
    // ---------------- (a) fields: single-byte perturbations
    ctx.bound("fields", "every kind 0..=21: spec-conformant sample images (1-3 variants per kind) and every single-byte perturbation of every body byte with {00,01,02,04,08,10,20,40,80,FF} (quick tier and dev profile) / with all 256 values (thorough, release), enumerated fields / counts / strides kept legal; region [filler][tag][end]; every public accessor compared with the slice-based reference decoder");
    for kind in 0..=21u32 {
        for (vi, img) in variants(kind).into_iter().enumerate() {
            let mut cases: Vec<(usize, u8)> = vec![(0, 0)]; // (0,0) = unperturbed
            for p in 8..img.len() {
                for v in (0..=255u8).filter(|v| !quick || PERT.contains(v)) {
                    if v != img[p] && legal(kind, &img, p, v) {
                        cases.push((p, v));
                    }
                }
            }
            for (p, v) in cases {
                let mut t = img.clone();
                if p > 0 {
                    t[p] = v;
                }
                let filler = bi::sample(other_kind(kind), 9, 0);
                let region = bi::region(&[filler, t, bi::end_tag()], &bi::marker_pad);
                let describe = || J::obj().set("part", "fields").set("kind", bi::kind_name(kind)).set("variant", vi).set("perturbed_byte", if p > 0 { J::from(p) } else { J::Null }).set("value", v).set("region", J::hex(&region));
                ctx.leaf(describe, |ctx| {
                    ctx.state(hash::hash_bytes(&region));
                    ctx.nontrivial();
                    let want = expected_for(&region, kind);
                    check_getter(ctx, &arena, &region, kind, want, "fields");
                });
            }
        }
    }
    // ---------------- (a2) whole-word values: a field that is 0 / all-ones / a boundary value / equal to a sibling
    ctx.bound("field_words", "every kind: every 32-bit body word of the first sample image set to each EDGE32 value (VBE: 0 and 0xFFFFFFFF only) and to the value of its neighbouring words; every pair of adjacent words over {0, 1, 0xFFFFFFFF}^2 (covers 64-bit fields); enumerated fields / counts / strides kept legal");
    for kind in 0..=21u32 {
        let img = variants(kind).into_iter().next().unwrap();
        let words: Vec<usize> = (8..img.len().saturating_sub(3)).step_by(4).collect();
        let word_legal = |w: usize, v: u32| -> bool {
            let bytes = v.to_le_bytes();
            (0..4).all(|i| bytes[i] == img[w + i] || legal(kind, &img, w + i, bytes[i])) && !(kind == bi::ACPI2 && w == 28 && v > 36)
        };
        let mut wcases: Vec<Vec<(usize, u32)>> = vec![];
        for (i, &w) in words.iter().enumerate() {
            let vals: Vec<u32> = if kind == bi::VBE { vec![0, 0xFFFF_FFFF] } else { EDGE32.to_vec() };
            for v in vals {
                wcases.push(vec![(w, v)]);
            }
            for j in [i.wrapping_sub(1), i + 1] {
                if let Some(&w2) = words.get(j) {
                    wcases.push(vec![(w, rd32(&img, w2))]);
                }
            }
            if kind != bi::VBE {
                if let Some(&w2) = words.get(i + 1) {
                    for a in [0u32, 1, 0xFFFF_FFFF] {
                        for b in [0u32, 1, 0xFFFF_FFFF] {
                            wcases.push(vec![(w, a), (w2, b)]);
                        }
                    }
                }
            }
        }
        for case in wcases {
            if !case.iter().all(|&(w, v)| word_legal(w, v)) {
                continue;
            }
            let mut t = img.clone();
            for &(w, v) in &case {
                wr32(&mut t, w, v);
            }
            let filler = bi::sample(other_kind(kind), 9, 0);
            let region = bi::region(&[filler, t, bi::end_tag()], &bi::marker_pad);
            let describe = || J::obj().set("part", "field_words").set("kind", bi::kind_name(kind)).set("words_set", J::Arr(case.iter().map(|(w, v)| J::from(format!("@{} = {:#x}", w, v))).collect())).set("region", J::hex(&region[..region.len().min(160)]));
            ctx.leaf(describe, |ctx| {
                ctx.state(hash::hash_bytes(&region));
                ctx.nontrivial();
                let want = expected_for(&region, kind);
                check_getter(ctx, &arena, &region, kind, want, "field_words");
            });
        }
    }
    // ---------------- (a3) sparse images: everything zero (or all-ones) except one or two fields
    ctx.bound("sparse_images", "every kind: the first sample image with every freely variable body byte set to 00 (and to FF), then every single 32-bit word and every adjacent pair of words (VBE: none), and every single byte, every aligned half-word and every pair of nearby half-words of the first 64 body bytes, restored to the sample's (marker) value: a field is special-cased only when its neighbours are zero / all-ones");
    for kind in 0..=21u32 {
        let img = variants(kind).into_iter().next().unwrap();
        for fillv in [0x00u8, 0xFF] {
            let mut base = img.clone();
            for p in 8..img.len() {
                if legal(kind, &img, p, fillv) && !(kind == bi::ACPI2 && (28..32).contains(&p) && fillv == 0xFF) {
                    base[p] = fillv;
                }
            }
            let words: Vec<usize> = (8..img.len().saturating_sub(3)).step_by(4).collect();
            let mut cases: Vec<Vec<usize>> = vec![vec![]];
            if kind != bi::VBE {
                for (i, &w) in words.iter().enumerate() {
                    cases.push(vec![w]);
                    if let Some(&w2) = words.get(i + 1) {
                        cases.push(vec![w, w2]);
                    }
                    if let Some(&w3) = words.get(i + 2) {
                        cases.push(vec![w, w3]);
                    }
                }
            }
            // below word granularity (16-bit and 8-bit fields): every single byte, every aligned half-word, and every
            // pair of half-words, of the first 64 body bytes (and of the VBE tag's own fields + the start of its blocks)
            let mut subcases: Vec<Vec<(usize, usize)>> = vec![];
            let top = img.len().min(72);
            for o in 8..top {
                subcases.push(vec![(o, 1)]);
            }
            let halves: Vec<usize> = (8..top.saturating_sub(1)).step_by(2).collect();
            for (i, &h) in halves.iter().enumerate() {
                subcases.push(vec![(h, 2)]);
                for &h2 in halves.iter().skip(i + 1).take(3) {
                    subcases.push(vec![(h, 2), (h2, 2)]);
                }
            }
            let mut all: Vec<Vec<(usize, usize)>> = cases.iter().map(|c| c.iter().map(|&w| (w, 4usize)).collect()).collect();
            all.extend(subcases);
            for case in all {
                let mut t = base.clone();
                for &(w, n) in &case {
                    if legal(kind, &img, w, img[w]) || n == 4 {
                        t[w..w + n].copy_from_slice(&img[w..w + n]);
                    }
                }
                let filler = bi::sample(other_kind(kind), 9, 0);
                let region = bi::region(&[filler, t, bi::end_tag()], &bi::marker_pad);
                let describe = || J::obj().set("part", "sparse_images").set("kind", bi::kind_name(kind)).set("fill", fillv).set("fields_kept_offset_width", J::Arr(case.iter().map(|w| J::from(format!("{}+{}", w.0, w.1))).collect())).set("region", J::hex(&region[..region.len().min(160)]));
                ctx.leaf(describe, |ctx| {
                    ctx.state(hash::hash_bytes(&region));
                    ctx.nontrivial();
                    let want = expected_for(&region, kind);
                    check_getter(ctx, &arena, &region, kind, want, "sparse_images");
                });
            }
        }
    }
    // ---------------- (b) selection
    let maxlen = if ctx.quick() { 3 } else { 4 };
    ctx.bound("selection", format!("per kind: all tag sequences of length <= {} over {{instance 1, instance 2, another kind, custom, end}} + final end tag; all 22 x 22 ordered pairs of kinds with all 22 getters", maxlen));
    for kind in 0..=21u32 {
        let n = |k: u32| match k {
            bi::FRAMEBUFFER => 1,
            _ => 1,
        };
        let alphabet: Vec<Vec<u8>> = vec![bi::sample(kind, 1, n(kind)), bi::sample(kind, 2, n(kind) + if bi::is_dst(kind) && kind != bi::FRAMEBUFFER { 2 } else { 0 }), bi::sample(other_kind(kind), 3, 0), bi::sample(bi::CUSTOM, 4, 3), bi::end_tag()];
        for len in 0..=maxlen {
            for code in 0..5usize.pow(len as u32) {
                let mut tags = vec![];
                let mut c = code;
                let mut seq = vec![];
                for _ in 0..len {
                    tags.push(alphabet[c % 5].clone());
                    seq.push(c % 5);
                    c /= 5;
                }
                tags.push(bi::end_tag());
                let region = bi::region(&tags, &bi::marker_pad);
                let describe = || J::obj().set("part", "selection").set("kind", bi::kind_name(kind)).set("sequence", format!("{:?} (0,1 = two instances of the kind, 2 = another kind, 3 = custom, 4 = end)", seq)).set("region", J::hex(&region));
                ctx.leaf(describe, |ctx| {
                    ctx.state(hash::hash_bytes(&region));
                    ctx.nontrivial();
                    let want = expected_for(&region, kind);
                    check_getter(ctx, &arena, &region, kind, want, "selection");
                });
            }
        }
    }
    for a in 0..=21u32 {
        for b in 0..=21u32 {
            let region = bi::region(&[bi::sample(a, 1, 1), bi::sample(b, 2, 1), bi::end_tag()], &bi::marker_pad);
            let describe = || J::obj().set("part", "pairs").set("first", bi::kind_name(a)).set("second", bi::kind_name(b)).set("region", J::hex(&region));
            ctx.leaf(describe, |ctx| {
                ctx.state(hash::hash_bytes(&region));
                ctx.nontrivial();
                for g in 0..=21u32 {
                    let want = expected_for(&region, g);
                    check_getter(ctx, &arena, &region, g, want, "pairs");
                }
            });
        }
    }
    // ---------------- (b1) decoys: a tag whose type differs from the kind's number only in high bits must not be selected
    ctx.bound("decoys", "per kind K: a tag with K's body but type K+0x100, K+0x10000, K+0x01000000 or K|0x80000000 placed before (and after) the real tag: the getter selects the real one; with only the decoy present it returns nothing");
    for kind in 0..=21u32 {
        for (di, d) in [0x100u32, 0x1_0000, 0x0100_0000, 0x8000_0000].into_iter().enumerate() {
            for arrangement in 0..3 {
                let real = bi::sample(kind, 1, 1);
                let mut decoy = bi::sample(kind, 2, 2);
                wr32(&mut decoy, 0, kind | d);
                let mut tags = match arrangement {
                    0 => vec![decoy, real],
                    1 => vec![real, decoy],
                    _ => vec![decoy],
                };
                tags.push(bi::end_tag());
                let region = bi::region(&tags, &bi::marker_pad);
                let describe = || J::obj().set("part", "decoys").set("kind", bi::kind_name(kind)).set("decoy_type", format!("{:#x}", kind | d)).set("arrangement", ["decoy, real", "real, decoy", "decoy only"][arrangement]).set("region", J::hex(&region[..region.len().min(96)]));
                let _ = di;
                ctx.leaf(describe, |ctx| {
                    ctx.state(hash::hash_bytes(&region));
                    ctx.nontrivial();
                    let want = expected_for(&region, kind);
                    check_getter(ctx, &arena, &region, kind, want, "decoys");
                });
            }
        }
    }
    // ---------------- (b1') nested images: a complete image of kind K inside the payload of another tag is not a tag
    ctx.bound("nested_images", "per kind K: a custom tag (type 0x1337) and a module tag whose payload holds a complete, 8-aligned image of kind K, placed before / after the real tag of kind K or without it: the getter selects the real tag or nothing");
    for kind in 0..=21u32 {
        for wrapper in [0x1337u32, bi::MODULE] {
            for arrangement in 0..3 {
                let real = bi::sample(kind, 1, 1);
                let inner = bi::sample(kind, 2, 2);
                let pre = if wrapper == bi::MODULE { 8 } else { 0 };
                let mut nest = vec![0u8; 8 + pre];
                nest.extend_from_slice(&inner);
                while nest.len() % 8 != 0 {
                    nest.push(0);
                }
                wr32(&mut nest, 0, wrapper);
                let nl = nest.len() as u32;
                wr32(&mut nest, 4, nl);
                if wrapper == bi::MODULE && kind == bi::MODULE {
                    continue; // the wrapper itself would be the first module
                }
                let mut tags = match arrangement {
                    0 => vec![nest, real],
                    1 => vec![real, nest],
                    _ => vec![nest],
                };
                tags.push(bi::end_tag());
                let region = bi::region(&tags, &bi::marker_pad);
                let describe = || J::obj().set("part", "nested_images").set("kind", bi::kind_name(kind)).set("wrapper_type", wrapper).set("arrangement", ["nest, real", "real, nest", "nest only"][arrangement]).set("region", J::hex(&region[..region.len().min(128)]));
                ctx.leaf(describe, |ctx| {
                    ctx.state(hash::hash_bytes(&region));
                    ctx.nontrivial();
                    let want = expected_for(&region, kind);
                    check_getter(ctx, &big_arena0, &region, kind, want, "nested_images");
                });
            }
        }
    }
    // ---------------- (b2) many tags: every kind present, in every rotation, surrounded by repeated custom tags
    ctx.bound("many_tags", "regions holding all 21 non-end kinds (EfiBs left out in half of them) in each of the 21 rotations, each kind followed by a custom tag, the whole sequence followed by a second instance of every kind: 60+ tags per region; all 22 getters");
    for rot in 0..21usize {
        for with_bs in [false, true] {
            let kinds: Vec<u32> = (0..21).map(|i| 1 + ((i + rot) % 21) as u32).filter(|k| with_bs || *k != bi::EFI_BS).collect();
            let mut tags = vec![];
            for (i, &k) in kinds.iter().enumerate() {
                tags.push(bi::sample(k, 1, 1));
                tags.push(bi::sample(bi::CUSTOM + i as u32, i, i % 5));
            }
            for &k in kinds.iter() {
                tags.push(bi::sample(k, 2, 2));
            }
            tags.push(bi::end_tag());
            let region = bi::region(&tags, &bi::marker_pad);
            let describe = || J::obj().set("part", "many_tags").set("rotation", rot).set("with_efi_bs", with_bs).set("tags", tags.len()).set("region_len", region.len());
            ctx.leaf(describe, |ctx| {
                ctx.state(hash::hash_bytes(&region));
                ctx.nontrivial();
                for g in 0..=21u32 {
                    let want = expected_for(&region, g);
                    check_getter(ctx, &big_arena0, &region, g, want, "many_tags");
                }
            });
        }
    }
    // ---------------- (b3) deep regions: the wanted tag comes after hundreds or thousands of other tags
    let deep_ns: Vec<usize> = if ctx.quick() { vec![254, 255, 256, 257, 1000, 8192] } else { vec![127, 128, 254, 255, 256, 257, 258, 1000, 4095, 4096, 8192, 65535, 65536, 65537] };
    ctx.bound("deep_regions", format!("N minimal custom tags (N modules in a second variant) in front of one instance of every kind, N in {:?}; all 22 getters", deep_ns));
    let deep_arena = Arena::new(1100);
    for &n in &deep_ns {
        for modules in [false, true] {
            let mut tags: Vec<Vec<u8>> = vec![];
            for i in 0..n {
                if modules {
                    tags.push(bi::enc_module(i as u32, i as u32 + 1, b"m\0").to_vec());
                } else {
                    tags.push(bi::tag(0x1337, &[]));
                }
            }
            for k in 1..=21u32 {
                if k != bi::EFI_BS {
                    tags.push(bi::sample(k, 1, 1));
                }
            }
            tags.push(bi::end_tag());
            let region = bi::region(&tags, &bi::zero_pad);
            let describe = || J::obj().set("part", "deep_regions").set("tags_in_front", n).set("front_kind", if modules { "module" } else { "custom, header only" }).set("region_len", region.len());
            ctx.leaf(describe, |ctx| {
                ctx.state(hash::hash_bytes(&region));
                ctx.nontrivial();
                for g in 0..=21u32 {
                    let want = expected_for(&region, g);
                    check_getter(ctx, &deep_arena, &region, g, want, "deep_regions");
                }
            });
        }
    }
    // ---------------- (b3') far tags: one huge tag in front, every kind far behind the start of the region
    ctx.bound("far_tags", "one custom tag (a module tag in a second variant) of D bytes in front of one instance of every kind, D in {65528, 65536, 65544, 524280, 524288, 524296, 1 MiB, 1 MiB + 8, 16 MiB}; all 22 getters");
    {
        let far_arena = Arena::new((17 << 20) / arena::PAGE);
        for d in [65528usize, 65536, 65544, 524280, 524288, 524296, 1 << 20, (1 << 20) + 8, 16 << 20] {
            for modules in [false, true] {
                let mut big = vec![0x61u8; d];
                wr32(&mut big, 0, if modules { 3 } else { 0x1337 });
                wr32(&mut big, 4, d as u32);
                big[d - 1] = 0;
                let mut tags: Vec<Vec<u8>> = vec![big];
                for k in 1..=21u32 {
                    if k != bi::EFI_BS {
                        tags.push(bi::sample(k, 1, 1));
                    }
                }
                tags.push(bi::end_tag());
                let region = bi::region(&tags, &bi::zero_pad);
                let describe = || J::obj().set("part", "far_tags").set("bytes_in_front", d).set("front_kind", if modules { "module" } else { "custom" }).set("region_len", region.len());
                ctx.leaf(describe, |ctx| {
                    ctx.state(hash::hash_bytes(&region[d..]) ^ d as u64);
                    ctx.nontrivial();
                    for g in 1..=21u32 {
                        if modules && g == bi::MODULE {
                            continue; // the first module is the huge one: its text is compared in large_counts
                        }
                        let want = expected_for(&region, g);
                        check_getter(ctx, &far_arena, &region, g, want, "far_tags");
                    }
                });
            }
        }
    }
    // ---------------- (b4) a realistic boot information (values as GRUB on a PC reports them), complete, with each
    // single tag left out, with a boot-services tag added, and rotated: what one tag says must not change how another
    // is decoded
    ctx.bound("realistic_region", "a boot information with realistic contents of every kind (command line, GRUB loader name, initrd module at 16 MiB, 640 KiB / 127 MiB memory, BIOS boot device 0x80, PC memory map, VESA 3.0 VBE info, linear RGB framebuffer at 0xFD000000, ELF sections, APM 1.2, EFI system tables, SMBIOS 3.0 entry point, valid ACPI 1.0 / 2.0 RSDPs, DHCP ack, EFI memory map, image handles, load base 2 MiB): complete, with each single tag left out, with a boot-services tag added in front / behind, and in 5 rotations; all 22 getters");
    {
        let fix_sum = |t: &mut Vec<u8>, at: usize, from: usize, to: usize| {
            t[at] = 0;
            let s: u8 = t[from..to].iter().fold(0u8, |a, b| a.wrapping_add(*b));
            t[at] = 0u8.wrapping_sub(s);
        };
        let mut control = vec![0u8; 512];
        control[..4].copy_from_slice(b"VESA");
        control[4..6].copy_from_slice(&0x0300u16.to_le_bytes());
        control[18..20].copy_from_slice(&256u16.to_le_bytes());
        let mut mode = vec![0u8; 256];
        mode[0..2].copy_from_slice(&0x00BBu16.to_le_bytes());
        mode[16..18].copy_from_slice(&4096u16.to_le_bytes());
        mode[18..20].copy_from_slice(&1024u16.to_le_bytes());
        mode[20..22].copy_from_slice(&768u16.to_le_bytes());
        mode[25] = 32;
        mode[27] = 6;
        mode[40..44].copy_from_slice(&0xFD00_0000u32.to_le_bytes());
        mode[44..48].copy_from_slice(&0x00A1_B2C3u32.to_le_bytes());
        mode[48..50].copy_from_slice(&0xD4E5u16.to_le_bytes());
        let mut rsdp1 = bi::enc_rsdp1(0, b"BOCHS ", 0, 0x07FE_1A2B);
        fix_sum(&mut rsdp1, 16, 8, 28);
        let mut rsdp2 = bi::enc_rsdp2(0, b"BOCHS ", 2, 0x07FE_1A2B, 36, 0x0000_0000_07FE_1B3C, 0);
        fix_sum(&mut rsdp2, 16, 8, 28);
        fix_sum(&mut rsdp2, 40, 8, 44);
        let mut efimap = vec![];
        for (t, p, n) in [(7u32, 0u64, 0xA0u64), (7, 0x10_0000, 0x7EE0), (0, 0x7FE_0000, 0x20), (11, 0xFFFC_0000, 0x40)] {
            efimap.extend(bi::enc_efi_desc(t, p, 0, n, 0xF));
            efimap.extend_from_slice(&[0; 8]);
        }
        let pc = [(0u64, 0x9FC00u64, 1u32, 0u32), (0x9FC00, 0x400, 2, 0), (0xF0000, 0x10000, 2, 0), (0x10_0000, 0x7EE_0000, 1, 0), (0x7FE_0000, 0x2_0000, 3, 0), (0xFFFC_0000, 0x4_0000, 2, 0)];
        let mut sm = b"_SM3_".to_vec();
        sm.extend_from_slice(&[0x5A, 0x18, 3, 0, 0, 1, 0, 0x9D, 1, 0, 0, 0xF0, 0x0E, 0x0F, 0, 0, 0, 0, 0]);
        let full: Vec<Vec<u8>> = vec![
            bi::enc_string(bi::CMDLINE, b"root=/dev/sda1 ro quiet\0"),
            bi::enc_string(bi::BOOTLOADER, b"GRUB 2.06\0"),
            bi::enc_module(0x0100_0000, 0x0110_0000, b"/boot/initrd.img\0"),
            bi::enc_meminfo(640, 130048),
            bi::enc_bootdev(0x80, 0, 0xFFFF_FFFF),
            bi::enc_mmap(24, 0, &pc),
            bi::enc_vbe(0x4118, 0xC000, 0x5E10, 0x0100, &control, &mode),
            bi::enc_framebuffer(0xFD00_0000, 4096, 1024, 768, 32, 1, &[16, 8, 8, 8, 0, 8]),
            bi::sample(bi::ELF, 1, 2),
            bi::enc_apm(0x0102, 0xF000, 0x0000_8A4B, 0xF000, 0x0040, 0x0003, 0xFFFF, 0xFFFF, 0xFFFF),
            bi::enc_u32(bi::EFI32, 0x7FED_E018),
            bi::enc_u64(bi::EFI64, 0x0000_0000_7FED_E018),
            bi::enc_smbios(3, 0, &sm),
            rsdp1,
            rsdp2,
            bi::tag(bi::NETWORK, &[2, 1, 6, 0, 0x39, 0x03, 0xF3, 0x26, 0, 0, 0, 0, 10, 0, 2, 15, 10, 0, 2, 2]),
            bi::enc_efi_mmap(48, 1, &efimap),
            bi::enc_u32(bi::EFI32_IH, 0x7F1B_2C18),
            bi::enc_u64(bi::EFI64_IH, 0x0000_0000_7F1B_2C18),
            bi::enc_u32(bi::LOAD_BASE, 0x0020_0000),
        ];
        let mut variants: Vec<(String, Vec<Vec<u8>>)> = vec![("complete".into(), full.clone())];
        for k in 0..full.len() {
            let mut v = full.clone();
            v.remove(k);
            variants.push((format!("without tag #{}", k), v));
        }
        for front in [true, false] {
            let mut v = full.clone();
            if front {
                v.insert(0, bi::sample(bi::EFI_BS, 0, 0));
            } else {
                v.push(bi::sample(bi::EFI_BS, 0, 0));
            }
            variants.push((format!("with a boot-services tag {}", if front { "in front" } else { "behind" }), v));
        }
        for rot in [1usize, 5, 9, 13, 17] {
            let mut v = full.clone();
            v.rotate_left(rot);
            variants.push((format!("rotated by {}", rot), v));
        }
        let mut rv = full.clone();
        rv.reverse();
        variants.push(("reversed".into(), rv));
        for (what, mut tags) in variants {
            tags.push(bi::end_tag());
            let region = bi::region(&tags, &bi::zero_pad);
            let describe = || J::obj().set("part", "realistic_region").set("variant", what.as_str()).set("region_len", region.len());
            ctx.leaf(describe, |ctx| {
                ctx.state(hash::hash_bytes(&region));
                ctx.nontrivial();
                for g in 0..=21u32 {
                    let want = expected_for(&region, g);
                    check_getter(ctx, &big_arena0, &region, g, want, "realistic_region");
                }
            });
        }
    }
    // ---------------- (b5) two instances of one kind that differ in a single byte, in both orders: the first in walk
    // order is the one reported, whichever of the two holds the "better" value
    ctx.bound("ordered_duplicates", "per kind: two instances that differ in one body byte (each of the first 40 body bytes; value pairs 2/3, 0/1, 0x7F/0x80, 0xFE/0xFF), both orders, with another tag between them");
    for kind in 1..=21u32 {
        let img = variants(kind).into_iter().next().unwrap();
        for p in 8..img.len().min(48) {
            for (lo, hi) in [(2u8, 3u8), (0, 1), (0x7F, 0x80), (0xFE, 0xFF)] {
                if !legal(kind, &img, p, lo) || !legal(kind, &img, p, hi) {
                    continue;
                }
                for first_lo in [true, false] {
                    let mut a = img.clone();
                    let mut b = img.clone();
                    a[p] = if first_lo { lo } else { hi };
                    b[p] = if first_lo { hi } else { lo };
                    let region = bi::region(&[a, bi::sample(other_kind(kind), 9, 0), b, bi::end_tag()], &bi::marker_pad);
                    let describe = || J::obj().set("part", "ordered_duplicates").set("kind", bi::kind_name(kind)).set("byte", p).set("values", format!("{:#x} then {:#x}", if first_lo { lo } else { hi }, if first_lo { hi } else { lo })).set("region", J::hex(&region[..region.len().min(160)]));
                    ctx.leaf(describe, |ctx| {
                        ctx.state(hash::hash_bytes(&region));
                        ctx.nontrivial();
                        let want = expected_for(&region, kind);
                        check_getter(ctx, &arena, &region, kind, want, "ordered_duplicates");
                    });
                }
            }
        }
    }
    // ---------------- (c) EFI withholding rule
    ctx.bound("efi_rule", "all sequences of length <= 4 over {EfiMmap, EfiBs, other, EfiMmap with an unsupported descriptor version (only together with EfiBs), custom tags numbered 50 and 0x10012 (18 modulo 32 / 18 in the low half)}: the EFI memory map is withheld - and not looked into - while a boot-services-not-exited tag is present anywhere");
    for len in 0..=4 {
        for code in 0..6usize.pow(len as u32) {
            let mut tags = vec![];
            let mut c = code;
            let mut seq = vec![];
            for i in 0..len {
                tags.push(match c % 6 {
                    // custom tags whose number is 18 modulo 32 / has 18 in its low byte: not a boot-services tag
                    4 => bi::tag(50, &[0xC1, 0xC2, 0xC3, 0xC4]),
                    5 => bi::tag(0x0001_0012, &[]),
                    0 => bi::sample(bi::EFI_MMAP, i, 1 + i % 2),
                    1 => bi::sample(bi::EFI_BS, 0, 0),
                    2 => bi::sample(bi::LOAD_BASE, i, 0),
                    _ => {
                        // a map the iterator must refuse (descriptor version 2): withheld like any other while
                        // boot services are running - nobody may look inside it
                        let mut t = bi::sample(bi::EFI_MMAP, i, 1);
                        wr32(&mut t, 12, 2);
                        t
                    }
                });
                seq.push(c % 6);
                c /= 6;
            }
            if len == 4 && seq.iter().any(|x| *x >= 4) && seq.iter().filter(|x| **x >= 3).count() > 2 {
                continue; // keep the longest sequences to at most two of the rarer symbols
            }
            if seq.contains(&3) && !seq.contains(&1) {
                continue; // without a boot-services tag the refused map would be decoded: C18's subject, not this part's
            }
            tags.push(bi::end_tag());
            let region = bi::region(&tags, &bi::zero_pad);
            let describe = || J::obj().set("part", "efi_rule").set("sequence", format!("{:?} (0 = EfiMmap, 1 = EfiBs, 2 = other, 3 = EfiMmap with descriptor version 2, 4 = custom tag 50, 5 = custom tag 0x10012)", seq)).set("region", J::hex(&region));
            ctx.leaf(describe, |ctx| {
                ctx.state(hash::hash_bytes(&region));
                ctx.nontrivial();
                for g in [bi::EFI_MMAP, bi::EFI_BS] {
                    let want = expected_for(&region, g);
                    check_getter(ctx, &arena, &region, g, want, "efi_rule");
                }
            });
        }
    }
    // ---------------- (d) framebuffer type bytes
    ctx.bound("framebuffer_type", "all 256 framebuffer type bytes on three realistic base images (linear RGB 1024x768x32 at 0xFD000000, VGA text 80x25 at 0xB8000, VGA 320x200x8 at 0xA0000) through framebuffer_tag(): 0..=2 decode to the matching variant, every other byte b gives Some(Err(e)) with e carrying b");
    // base images: a linear RGB mode, the VGA text console, a VGA 256-colour mode (addresses, pitches and depths as
    // real hardware reports them)
    for (base_i, (addr, pitch, w, h, bpp)) in [(0xFD00_0000u64, 4096u32, 1024u32, 768u32, 32u8), (0xB8000, 160, 80, 25, 16), (0xA0000, 320, 320, 200, 8)].into_iter().enumerate() {
    for b in 0..=255u8 {
        let mut t = bi::enc_framebuffer(addr, pitch, w, h, bpp, b, &[1, 0, 0x21, 0x22, 0x23, 8]);
        if b == 0 {
            t.truncate(32 + 5);
            wr32(&mut t, 4, 37);
        }
        let region = bi::region(&[t, bi::end_tag()], &bi::marker_pad);
        let describe = || J::obj().set("part", "framebuffer_type").set("base_image", base_i).set("type_byte", b).set("region", J::hex(&region));
        ctx.leaf(describe, |ctx| {
            ctx.state(hash::hash_bytes(&region));
            ctx.nontrivial();
            check_getter(ctx, &arena, &region, bi::FRAMEBUFFER, Some(8), if b <= 2 { "framebuffer_type/known" } else { "framebuffer_type/unknown" });
        });
    }
    }
    // ---------------- (d2) two framebuffer tags, one of them with an arbitrary type byte
    ctx.bound("framebuffer_type_pairs", "all 256 type bytes on the first / on the second of two framebuffer tags (the other one RGB): the getter reports the first tag in walk order, as an error carrying its byte when that byte is unknown");
    for b in 0..=255u8 {
        for first in [true, false] {
            let mut t = bi::enc_framebuffer(0x1817_1615_1413_1211, 4096, 1024, 768, 32, b, &[1, 0, 0x21, 0x22, 0x23, 8]);
            if b == 0 {
                t.truncate(32 + 5);
                wr32(&mut t, 4, 37);
            }
            let rgb = bi::enc_framebuffer(0x9897_9695_9493_9291, 2048, 800, 600, 24, 1, &[16, 8, 8, 8, 0, 8]);
            let tags = if first { vec![t, rgb, bi::end_tag()] } else { vec![rgb, t, bi::end_tag()] };
            let region = bi::region(&tags, &bi::marker_pad);
            let describe = || J::obj().set("part", "framebuffer_type_pairs").set("type_byte", b).set("arbitrary_tag_first", first).set("region", J::hex(&region));
            ctx.leaf(describe, |ctx| {
                ctx.state(hash::hash_bytes(&region));
                ctx.nontrivial();
                check_getter(ctx, &arena, &region, bi::FRAMEBUFFER, Some(8), "framebuffer_type_pairs");
            });
        }
    }
    // ---------------- (e2) RSDP validity depends on the byte sum only: every byte of the summed range at every
    // value, with the checksum byte compensating (sum stays 0 -> valid) and over-compensating (sum 1 -> invalid)
    ctx.bound("rsdp_compensated", "RSDPv1 (20 summed bytes) and RSDPv2 (36 summed bytes): every byte position of the summed range x all 256 values, the (extended) checksum byte adjusted so that the sum is 0 (must be valid) or 1 (must be invalid); for RSDPv2 additionally with the first-20-bytes sum made invalid");
    for (kind, n, csum_at) in [(bi::ACPI1, 20usize, 16usize), (bi::ACPI2, 36, 40)] {
        for pos in 8..8 + n {
            if pos == csum_at {
                continue;
            }
            for v in 0..=255u8 {
                for target in [0u8, 1] {
                    let mut t = bi::sample(kind, 4, 0);
                    if kind == bi::ACPI2 && (28..32).contains(&pos) {
                        continue; // the length field stays 36
                    }
                    t[pos] = v;
                    if kind == bi::ACPI2 {
                        // spoil the ACPI 1.0 sum (first 20 bytes) unless this position is its checksum byte
                        if pos != 16 {
                            t[16] = t[16].wrapping_add(0x5B);
                        }
                    }
                    t[csum_at] = 0;
                    let s: u8 = t[8..8 + n].iter().fold(0u8, |a, b| a.wrapping_add(*b));
                    t[csum_at] = target.wrapping_sub(s);
                    let region = bi::region(&[t, bi::end_tag()], &bi::marker_pad);
                    let describe = || J::obj().set("part", "rsdp_compensated").set("kind", bi::kind_name(kind)).set("byte", pos).set("value", v).set("sum", target).set("region", J::hex(&region));
                    ctx.leaf(describe, |ctx| {
                        ctx.state(hash::hash_bytes(&region));
                        ctx.nontrivial();
                        check_getter(ctx, &arena, &region, kind, Some(8), "rsdp_compensated");
                    });
                }
            }
        }
    }
    // ---------------- (e3) RSDPv2 stored length: every length, the bytes it covers summing to 0
    ctx.bound("rsdp_length", "RSDPv2: stored length 0..=48 + EDGE32, with the extended checksum byte (or, for lengths up to 32, the last covered byte) adjusted so that the first min(length, 40) bytes sum to 0, and to 1: valid exactly when the length is at most 36 and the covered bytes sum to 0");
    {
        let mut lens: Vec<u32> = (0..=48).collect();
        lens.extend(EDGE32.iter().copied().filter(|e| *e > 48));
        for l in lens {
            for target in [0u8, 1] {
                let mut t = bi::sample(bi::ACPI2, 4, 0);
                while t.len() < 48 {
                    t.push(0);
                }
                wr32(&mut t, 28, l);
                let cover = (l as usize).min(40);
                if cover >= 1 {
                    // the byte that compensates: the extended checksum when covered, else the last covered byte outside the length field
                    let at = if cover > 32 { 40 } else if (21..=24).contains(&cover) { 8 + 19 } else { 8 + cover - 1 };
                    let at = if (28..32).contains(&at) { 27 } else { at };
                    if at < 8 + cover {
                        t[at] = 0;
                        let s: u8 = t[8..8 + cover].iter().fold(0u8, |a, b| a.wrapping_add(*b));
                        t[at] = target.wrapping_sub(s);
                    }
                }
                t.truncate(44);
                let region = bi::region(&[t, bi::end_tag()], &bi::zero_pad);
                let describe = || J::obj().set("part", "rsdp_length").set("stored_length", l).set("covered_sum", target).set("region", J::hex(&region));
                ctx.leaf(describe, |ctx| {
                    ctx.state(hash::hash_bytes(&region));
                    ctx.nontrivial();
                    check_getter(ctx, &arena, &region, bi::ACPI2, Some(8), "rsdp_length");
                });
            }
        }
    }
    // ---------------- (f) counts around 8- and 16-bit boundaries
    ctx.bound("large_counts", "framebuffer palettes of 254..=257, 1000, 21845, 21846, 43690, 43691 (3 x count crosses 2^16 / 2^17), 65534 and 65535 colours, memory maps and EFI maps of 255..=257, 2730, 2731, 4096 and 65535..=65537 entries, strings / SMBIOS / network contents of 254..=257 and 65534..=65537 bytes");
    let mut big: Vec<(u32, Vec<u8>)> = vec![];
    for n in [254usize, 255, 256, 257, 1000, 21845, 21846, 43690, 43691, 65534, 65535] {
        let pal: Vec<(u8, u8, u8)> = (0..n).map(|i| ((i * 3) as u8, (i * 5 + 1) as u8, (i * 7 + 2) as u8)).collect();
        big.push((bi::FRAMEBUFFER, bi::enc_framebuffer(0xA0000, 320, 320, 200, 8, 0, &bi::enc_palette(&pal))));
    }
    for n in [255usize, 256, 257, 2730, 2731, 4096, 65535, 65536, 65537] {
        big.push((bi::MMAP, bi::sample(bi::MMAP, 3, n)));
        big.push((bi::EFI_MMAP, bi::sample(bi::EFI_MMAP, 3, n)));
    }
    for n in [254usize, 255, 256, 257, 65534, 65535, 65536, 65537] {
        for k in [bi::CMDLINE, bi::BOOTLOADER, bi::MODULE, bi::SMBIOS, bi::NETWORK] {
            big.push((k, bi::sample(k, 3, n)));
        }
    }
    let big_arena = Arena::new(1200);
    for (kind, t) in big {
        let region = bi::region(&[bi::sample(other_kind(kind), 9, 0), t, bi::end_tag()], &bi::marker_pad);
        let describe = || J::obj().set("part", "large_counts").set("kind", bi::kind_name(kind)).set("tag_size", rd32(&region, 8 + 16 + 4)).set("region_head", J::hex(&region[..64]));
        ctx.leaf(describe, |ctx| {
            ctx.state(hash::hash_bytes(&region));
            ctx.nontrivial();
            let want = expected_for(&region, kind);
            check_getter(ctx, &big_arena, &region, kind, want, "large_counts");
        });
    }
    // ---------------- (e) RSDP checksum bytes
    ctx.bound("rsdp", "all 256 values of each checksum byte of an RSDPv1 image and of both checksum bytes of an RSDPv2 image");
    for (kind, at) in [(bi::ACPI1, 16usize), (bi::ACPI2, 16), (bi::ACPI2, 40)] {
        for v in 0..=255u8 {
            let mut t = bi::sample(kind, 3, 0);
            t[at] = v;
            let region = bi::region(&[t, bi::end_tag()], &bi::marker_pad);
            let describe = || J::obj().set("part", "rsdp").set("kind", bi::kind_name(kind)).set("checksum_byte_at", at).set("value", v).set("region", J::hex(&region));
            ctx.leaf(describe, |ctx| {
                ctx.state(hash::hash_bytes(&region));
                ctx.nontrivial();
                check_getter(ctx, &arena, &region, kind, Some(8), "rsdp");
            });
        }
    }
}

fn main() {
    main_wrap("C04", run);
}
