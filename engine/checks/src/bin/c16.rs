//! C16 - heap construction lays out header and content exactly, frees with
//! the allocation layout; cloning a dynamically sized tag is the identity.
use mbvlib::spec::*;
use mbvlib::*;
use multiboot2::{
    BootInformationHeader, BootLoaderNameTag, CommandLineTag, EFIMemoryMapTag, ElfSectionsTag, FramebufferColor,
    FramebufferTag, FramebufferType, MemoryArea, MemoryMapTag, ModuleTag, NetworkTag, SmbiosTag, TagHeader, TagType,
};
use multiboot2_common::test_utils::{DummyDstTag, DummyTestHeader};
use multiboot2_common::{clone_dyn, new_boxed, DynSizedStructure, Header, MaybeDynSized};
use multiboot2_header::{HeaderTagFlag, HeaderTagHeader, HeaderTagType, InformationRequestHeaderTag, MbiTagTypeId, Multiboot2BasicHeader};

#[global_allocator]
static A: ledger::Counting = ledger::Counting;

/// All ways of splitting `n` bytes into `k` slices (empty slices included).
fn splits(n: usize, k: usize) -> Vec<Vec<usize>> {
    if k == 0 {
        return if n == 0 { vec![vec![]] } else { vec![] };
    }
    if k == 1 {
        return vec![vec![n]];
    }
    let mut out = vec![];
    for first in 0..=n {
        for mut rest in splits(n - first, k - 1) {
            let mut v = vec![first];
            v.append(&mut rest);
            out.push(v);
        }
    }
    out
}

struct Obs {
    addr: usize,
    sov: usize,
    bytes: Vec<u8>,
}

/// new_boxed::<T>(header, slices) under the allocation ledger.
fn boxed_case<T: MaybeDynSized<Metadata = usize> + ?Sized>(ctx: &mut Ctx, key: &'static str, hdr_size: usize, size_off: usize, header: impl Fn() -> T::Header, content: &[u8], split: &[usize], check_extra: &dyn Fn(&[u8]) -> Option<String>) {
    let mut parts: Vec<&[u8]> = vec![];
    let mut o = 0;
    for &l in split {
        parts.push(&content[o..o + l]);
        o += l;
    }
    let n = content.len();
    let total = hdr_size + n;
    let (r, log) = ledger::record(|| {
        ctx.call("new_boxed + drop", || {
            let b = new_boxed::<T>(header(), &parts);
            let t: &T = &b;
            let obs = Obs { addr: t as *const T as *const u8 as usize, sov: std::mem::size_of_val(t), bytes: unsafe { std::slice::from_raw_parts(t as *const T as *const u8, total) }.to_vec() };
            drop(b);
            obs
        })
    });
    let Out::Val(obs) = r else {
        ctx.violation(&format!("c16/{}/panic", key), || format!("new_boxed panicked for {} content bytes split {:?}", n, split));
        return;
    };
    ctx.ob("sov", obs.sov as u64);
    ctx.tx.bytes(&obs.bytes);
    let mut bad = vec![];
    if obs.addr % 8 != 0 {
        bad.push("allocation not 8-aligned".to_string());
    }
    if obs.sov != round8(total) {
        bad.push(format!("size_of_val {} != round8({})", obs.sov, total));
    }
    if rd32(&obs.bytes, size_off) as usize != total {
        bad.push(format!("size field {} != header {} + content {}", rd32(&obs.bytes, size_off), hdr_size, n));
    }
    // every header byte except the size field (and the checksum word of the 16-byte header, judged separately) is the
    // supplied header's
    {
        let h = header();
        let hb: &[u8] = unsafe { std::slice::from_raw_parts(&h as *const T::Header as *const u8, hdr_size) };
        for i in 0..hdr_size {
            let in_size = (size_off..size_off + 4).contains(&i);
            let in_csum = hdr_size == 16 && (12..16).contains(&i);
            if !in_size && !in_csum && obs.bytes[i] != hb[i] {
                bad.push(format!("header byte {} is {:#04x}, the supplied header has {:#04x} (only the size{} may be rewritten)", i, obs.bytes[i], hb[i], if hdr_size == 16 { " and checksum" } else { "" }));
                break;
            }
        }
    }
    if obs.bytes[hdr_size..] != *content {
        bad.push("content after the header is not the concatenation of the slices".to_string());
    }
    if let Some(e) = check_extra(&obs.bytes) {
        bad.push(e);
    }
    // ledger: the object's allocation (round8(total), align 8) allocated once, freed once with the same layout;
    // everything else allocated in between is freed as well (the harness's own Vec for `obs.bytes` excepted)
    let obj_allocs: Vec<_> = log.iter().filter(|e| e.3 && e.0 == obs.addr).collect();
    let obj_frees: Vec<_> = log.iter().filter(|e| !e.3 && e.0 == obs.addr).collect();
    if obj_allocs.len() != 1 || (obj_allocs[0].1, obj_allocs[0].2) != (round8(total), 8) {
        bad.push(format!("allocation of the object: {:?}, expected exactly one of size {} align 8", obj_allocs.iter().map(|e| (e.1, e.2)).collect::<Vec<_>>(), round8(total)));
    }
    if obj_frees.len() != 1 || (obj_frees[0].1, obj_frees[0].2) != (round8(total), 8) {
        bad.push(format!("deallocation of the object: {:?}, expected exactly one with the allocation layout ({}, 8)", obj_frees.iter().map(|e| (e.1, e.2)).collect::<Vec<_>>(), round8(total)));
    }
    let mut live: Vec<(usize, usize)> = vec![];
    for e in &log {
        if e.3 {
            live.push((e.0, e.1));
        } else if let Some(i) = live.iter().position(|x| x.0 == e.0) {
            live.remove(i);
        }
    }
    // the copy of the bytes made by the harness is the only allocation allowed to survive
    let survivors: Vec<_> = live.iter().filter(|x| x.0 != obs.bytes.as_ptr() as usize).collect();
    if !survivors.is_empty() {
        bad.push(format!("{} allocation(s) made by new_boxed are never freed", survivors.len()));
    }
    if bad.is_empty() {
        ctx.class("boxed:exact");
    } else {
        ctx.violation(&format!("c16/{}/layout", key), || format!("{} content bytes split {:?}: {}", n, split, bad.join("; ")));
    }
}

/// new_boxed with slices that alias each other inside one buffer.
fn aliasing_case(ctx: &mut Ctx, hk: usize, buf: &[u8], parts: &[(usize, usize)], content: &[u8]) {
    let slices: Vec<&[u8]> = parts.iter().map(|&(a, b)| &buf[a..b]).collect();
    let (hdr, off) = if hk == 4 { (16usize, 8usize) } else if hk == 3 { (8, 0) } else { (8, 4) };
    let total = hdr + content.len();
    let r = ctx.call("new_boxed(aliasing)", || unsafe {
        macro_rules! go {
            ($t:ty, $h:expr) => {{
                let b = new_boxed::<$t>($h, &slices);
                let t: &$t = &b;
                (std::slice::from_raw_parts(t as *const $t as *const u8, total).to_vec(), std::mem::size_of_val(t))
            }};
        }
        match hk {
            0 => go!(DynSizedStructure<TagHeader>, TagHeader::new(TagType::Custom(0x1337), 0)),
            1 => go!(DummyDstTag, DummyTestHeader::new(42, 0)),
            2 => go!(DynSizedStructure<HeaderTagHeader>, HeaderTagHeader::new(HeaderTagType::Address, HeaderTagFlag::Optional, 0)),
            3 => go!(DynSizedStructure<BootInformationHeader>, std::mem::transmute::<[u32; 2], BootInformationHeader>([0, 0xA5B6_C7D8])),
            _ => go!(DynSizedStructure<Multiboot2BasicHeader>, std::mem::transmute::<[u32; 4], Multiboot2BasicHeader>([0xE852_50D6, 4, 0, 0])),
        }
    });
    match r {
        Out::Panic => ctx.violation("c16/aliasing/panic", || format!("new_boxed panicked for aliasing slices {:?}", parts)),
        Out::Val((bytes, sov)) => {
            ctx.tx.bytes(&bytes);
            if rd32(&bytes, off) as usize != total || sov != round8(total) || bytes[hdr..] != *content {
                ctx.violation("c16/aliasing/content", || format!("slices {:?} of one buffer: size field {}, size_of_val {}, content {:02x?}; expected size {}, content {:02x?}", parts, rd32(&bytes, off), sov, &bytes[hdr..], total, content));
            } else {
                ctx.class("boxed:exact");
            }
        }
    }
}

fn clone_case<T: MaybeDynSized<Metadata = usize> + ?Sized>(ctx: &mut Ctx, key: &'static str, size_of: &dyn Fn(&T) -> usize, make: impl Fn() -> Box<T>) {
    let r = ctx.call("clone_dyn", || {
        let orig = make();
        let c = clone_dyn::<T>(&orig);
        let so = size_of(&orig);
        let sc = size_of(&c);
        let bo = unsafe { std::slice::from_raw_parts(&*orig as *const T as *const u8, so) }.to_vec();
        let bc = unsafe { std::slice::from_raw_parts(&*c as *const T as *const u8, sc.min(std::mem::size_of_val(&*c))) }.to_vec();
        (so, sc, bo, bc, std::mem::size_of_val(&*orig), std::mem::size_of_val(&*c))
    });
    match r {
        Out::Panic => ctx.violation(&format!("c16/clone/{}/panic", key), || "clone_dyn panicked".into()),
        Out::Val((so, sc, bo, bc, vo, vc)) => {
            ctx.ob("clone.size", sc as u64);
            ctx.tx.bytes(&bc);
            if so != sc {
                ctx.violation(&format!("c16/clone/{}/size", key), || format!("the clone declares size {} but the original declares {}", sc, so));
            } else if bo != bc || vo != vc {
                ctx.violation(&format!("c16/clone/{}/bytes", key), || "the clone's bytes up to the declared size differ from the original".into());
            } else {
                ctx.class("clone:equal");
            }
        }
    }
}

// (the 16-byte header here carries a magic other than the Multiboot2 one: construction must not rewrite it)
fn dispatch(ctx: &mut Ctx, hk: usize, content: &[u8], split: &[usize]) {
    let none = |_: &[u8]| None;
    match hk {
        0 => boxed_case::<DynSizedStructure<TagHeader>>(ctx, "TagHeader", 8, 4, || TagHeader::new(TagType::Custom(0x1337), 0), content, split, &none),
        5 => boxed_case::<DynSizedStructure<TagHeader>>(ctx, "TagHeader(End)", 8, 4, || TagHeader::new(TagType::End, 0), content, split, &none),
        6 => boxed_case::<DynSizedStructure<HeaderTagHeader>>(ctx, "HeaderTagHeader(End)", 8, 4, || HeaderTagHeader::new(HeaderTagType::End, HeaderTagFlag::Required, 0), content, split, &none),
        7 => boxed_case::<DynSizedStructure<TagHeader>>(ctx, "TagHeader(Module)", 8, 4, || TagHeader::new(TagType::Module, 0), content, split, &none),
        1 => boxed_case::<DummyDstTag>(ctx, "DummyTestHeader", 8, 4, || DummyTestHeader::new(42, 0), content, split, &none),
        2 => boxed_case::<DynSizedStructure<HeaderTagHeader>>(ctx, "HeaderTagHeader", 8, 4, || HeaderTagHeader::new(HeaderTagType::Address, HeaderTagFlag::Optional, 0), content, split, &none),
        3 => boxed_case::<DynSizedStructure<BootInformationHeader>>(ctx, "BootInformationHeader", 8, 0, || unsafe { std::mem::transmute::<[u32; 2], BootInformationHeader>([0, 0xA5B6_C7D8]) }, content, split, &none),
        _ => boxed_case::<DynSizedStructure<Multiboot2BasicHeader>>(ctx, "Multiboot2BasicHeader", 16, 8, || unsafe { std::mem::transmute::<[u32; 4], Multiboot2BasicHeader>([0x1BAD_B002, 4, 0, 0]) }, content, split, &|b: &[u8]| {
            let s = rd32(b, 0).wrapping_add(rd32(b, 4)).wrapping_add(rd32(b, 8)).wrapping_add(rd32(b, 12));
            if s != 0 { Some("checksum does not match the patched length".to_string()) } else { None }
        }),
    }
}

fn run(ctx: &mut Ctx) {
    let nmax = if ctx.quick() { 16 } else { 40 };
    ctx.bound("new_boxed", format!("all splits of a marker content of total length 0..={} into 0..=4 slices (0..=8 slices for contents of up to 5 bytes; empty slices included) x header kinds TagHeader, DummyTestHeader, HeaderTagHeader, BootInformationHeader, Multiboot2BasicHeader (with checksum); every allocator call recorded", nmax));
    for n in 0..=nmax {
        let content: Vec<u8> = (0..n).map(|i| marker(i, 61)).collect();
        for k in 0..=8usize {
            if k > 4 && n > 5 {
                continue; // 5..=8 slices: contents of up to 5 bytes
            }
            for split in splits(n, k) {
                for hk in 0..5 {
                    let describe = || J::obj().set("part", "new_boxed").set("header_kind", ["TagHeader", "DummyTestHeader", "HeaderTagHeader", "BootInformationHeader", "Multiboot2BasicHeader"][hk]).set("content_len", n).set("split", format!("{:?}", split));
                    ctx.leaf(describe, |ctx| {
                        ctx.state_direct();
                        ctx.nontrivial();
                        let none = |_: &[u8]| None;
                        match hk {
                            0 => boxed_case::<DynSizedStructure<TagHeader>>(ctx, "TagHeader", 8, 4, || TagHeader::new(TagType::Custom(0x1337), 0), &content, &split, &none),
                            1 => boxed_case::<DummyDstTag>(ctx, "DummyTestHeader", 8, 4, || DummyTestHeader::new(42, 0), &content, &split, &none),
                            2 => boxed_case::<DynSizedStructure<HeaderTagHeader>>(ctx, "HeaderTagHeader", 8, 4, || HeaderTagHeader::new(HeaderTagType::Address, HeaderTagFlag::Optional, 0), &content, &split, &none),
                            3 => boxed_case::<DynSizedStructure<BootInformationHeader>>(ctx, "BootInformationHeader", 8, 0, || unsafe { std::mem::transmute::<[u32; 2], BootInformationHeader>([0, 0xA5B6_C7D8]) }, &content, &split, &none),
                            _ => boxed_case::<DynSizedStructure<Multiboot2BasicHeader>>(ctx, "Multiboot2BasicHeader", 16, 8, || unsafe { std::mem::transmute::<[u32; 4], Multiboot2BasicHeader>([0xE852_50D6, 4, 0, 0]) }, &content, &split, &|b: &[u8]| {
                                let s = rd32(b, 0).wrapping_add(rd32(b, 4)).wrapping_add(rd32(b, 8)).wrapping_add(rd32(b, 12));
                                if s != 0 { Some("checksum does not match the patched length".to_string()) } else { None }
                            }),
                        }
                    });
                }
            }
        }
    }
    ctx.bound("new_boxed_aliasing", "content slices that alias one another: every sequence of up to 3 sub-slices [a..b) of one 5-byte buffer (21 sub-slices incl. empty ones: repeated, overlapping, reversed, nested), all five header kinds");
    {
        let buf: Vec<u8> = (0..5).map(|i| marker(i, 69)).collect();
        let mut subs: Vec<(usize, usize)> = vec![];
        for a in 0..=5usize {
            for b in a..=5usize {
                subs.push((a, b));
            }
        }
        for k in 1..=3usize {
            for code in 0..subs.len().pow(k as u32) {
                let mut c = code;
                let mut parts: Vec<(usize, usize)> = vec![];
                for _ in 0..k {
                    parts.push(subs[c % subs.len()]);
                    c /= subs.len();
                }
                // the expected content is the concatenation, whatever the aliasing
                let content: Vec<u8> = parts.iter().flat_map(|&(a, b)| buf[a..b].iter().copied()).collect();
                let hk = code % 5;
                let describe = || J::obj().set("part", "new_boxed_aliasing").set("header_kind", hk).set("sub_slices_of_one_buffer", format!("{:?}", parts));
                ctx.leaf(describe, |ctx| {
                    ctx.state_direct();
                    ctx.nontrivial();
                    aliasing_case(ctx, hk, &buf, &parts, &content);
                });
            }
        }
    }
    // many small slices (a constructor with many scalar fields; running totals crossing 16, 32, 64, 128 bytes)
    let kmax = if ctx.quick() { 12 } else { 14 };
    ctx.bound("new_boxed_many_slices", format!("k slices for k in 5..={}: every sequence of lengths over {{7, 8}}; every sequence over {{1, 2, 4, 8}} for k <= {}; uniform runs of k = 1..=40 slices of length 0..=9 and 15..=17; header kinds TagHeader (custom, end and module type), HeaderTagHeader (end type) and Multiboot2BasicHeader", kmax, if ctx.quick() { 6 } else { 8 }));
    {
        let mut cases: Vec<Vec<usize>> = vec![];
        for k in 5..=kmax {
            for code in 0..(1usize << k) {
                cases.push((0..k).map(|i| 7 + ((code >> i) & 1)).collect());
            }
        }
        for k in 5..=(if ctx.quick() { 6 } else { 8 }) {
            for code in 0..4usize.pow(k as u32) {
                cases.push((0..k).map(|i| [1usize, 2, 4, 8][(code / 4usize.pow(i as u32)) % 4]).collect());
            }
        }
        for k in 1..=40usize {
            for l in (0..=9usize).chain(15..=17) {
                cases.push(vec![l; k]);
            }
        }
        for (ci, split) in cases.iter().enumerate() {
            let n: usize = split.iter().sum();
            let content: Vec<u8> = (0..n).map(|i| marker(i, 65)).collect();
            let hk = [0usize, 4, 5, 6, 7][ci % 5];
            let describe = || J::obj().set("part", "new_boxed_many_slices").set("header_kind", hk).set("content_len", n).set("split", format!("{:?}", split));
            ctx.leaf(describe, |ctx| {
                ctx.state_direct();
                ctx.nontrivial();
                dispatch(ctx, hk, &content, split);
            });
        }
    }
    // contents with long runs of zero bytes (a constructor may treat "nothing to copy" specially)
    ctx.bound("new_boxed_zero_runs", "every sequence of 1..=3 slices over {64 zero bytes, 63 zero bytes, 128 zero bytes, 4096 zero bytes, 3 marker bytes, 64 marker bytes, empty}, all five header kinds");
    {
        let pieces: Vec<Vec<u8>> = vec![vec![0u8; 64], vec![0u8; 63], vec![0u8; 128], vec![0u8; 4096], (0..3).map(|i| marker(i, 66) | 1).collect(), (0..64).map(|i| marker(i, 68) | 1).collect(), vec![]];
        for k in 1..=3usize {
            for code in 0..pieces.len().pow(k as u32) {
                let sel: Vec<usize> = (0..k).map(|i| (code / pieces.len().pow(i as u32)) % pieces.len()).collect();
                let content: Vec<u8> = sel.iter().flat_map(|&i| pieces[i].iter().copied()).collect();
                let split: Vec<usize> = sel.iter().map(|&i| pieces[i].len()).collect();
                let hk = code % 8;
                let describe = || J::obj().set("part", "new_boxed_zero_runs").set("header_kind", hk).set("pieces", format!("{:?} (0 = 64 zeros, 1 = 63 zeros, 2 = 128 zeros, 3 = 4096 zeros, 4 = 3 non-zero bytes, 5 = 64 non-zero bytes, 6 = empty)", sel));
                ctx.leaf(describe, |ctx| {
                    ctx.state_direct();
                    ctx.nontrivial();
                    dispatch(ctx, hk, &content, &split);
                });
            }
        }
    }
    // every specified tag type in the generic header, every content length 0..=40 (a size that is "corrected" for one
    // kind), and contents that begin like the header itself (type word, then a size word)
    ctx.bound("new_boxed_header_types", "generic TagHeader with each specified type 0..=21 and 0x1337 x content lengths 0..=40 in one slice; contents whose first words are (the header's type, a size word in {content length, content length + 8, 0, 8}) in one slice and split behind the first 8 bytes");
    for ty in (0u32..=21).chain([0x1337]) {
        for n in 0..=40usize {
            let content: Vec<u8> = (0..n).map(|i| marker(i, 64)).collect();
            let describe = || J::obj().set("part", "new_boxed_header_types").set("type", ty).set("content_len", n);
            ctx.leaf(describe, |ctx| {
                ctx.state_direct();
                ctx.nontrivial();
                let none = |_: &[u8]| None;
                boxed_case::<DynSizedStructure<TagHeader>>(ctx, "TagHeader(any type)", 8, 4, || TagHeader::new(TagType::from(ty), 0), &content, &[n], &none);
            });
        }
        for n in [8usize, 16, 24, 32] {
            for (si, sz) in [n as u32, n as u32 + 8, 0, 8].into_iter().enumerate() {
                for split_after_8 in [false, true] {
                    let mut content: Vec<u8> = (0..n).map(|i| marker(i, 62)).collect();
                    content[..4].copy_from_slice(&ty.to_le_bytes());
                    content[4..8].copy_from_slice(&sz.to_le_bytes());
                    let split: Vec<usize> = if split_after_8 && n > 8 { vec![8, n - 8] } else { vec![n] };
                    let describe = || J::obj().set("part", "new_boxed_header_types").set("type", ty).set("content_len", n).set("content_starts_like_a_header_with_size", sz).set("variant", si).set("split", format!("{:?}", split));
                    ctx.leaf(describe, |ctx| {
                        ctx.state_direct();
                        ctx.nontrivial();
                        let none = |_: &[u8]| None;
                        boxed_case::<DynSizedStructure<TagHeader>>(ctx, "TagHeader(any type)", 8, 4, || TagHeader::new(TagType::from(ty), 0), &content, &split, &none);
                    });
                }
            }
        }
    }
    ctx.bound("new_boxed_large", "contents of 255..257, 1023..1025, 4087, 4088, 4095..4097, 65535..65537 and 2^20 bytes split at every pair of cut points from {0, 1, n/2, n-1, n}, all five header kinds");
    for n in [255usize, 256, 257, 1023, 1024, 1025, 4087, 4088, 4095, 4096, 4097, 65535, 65536, 65537, 1 << 20] {
        let content: Vec<u8> = (0..n).map(|i| marker(i, 67)).collect();
        let cuts = [0usize, 1, n / 2, n - 1, n];
        for &c1 in &cuts {
            for &c2 in &cuts {
                if c2 < c1 {
                    continue;
                }
                let split = vec![c1, c2 - c1, n - c2];
                for hk in 0..5 {
                    let describe = || J::obj().set("part", "new_boxed_large").set("header_kind", hk).set("content_len", n).set("split", format!("{:?}", split));
                    ctx.leaf(describe, |ctx| {
                        ctx.state_direct();
                        ctx.nontrivial();
                        let none = |_: &[u8]| None;
                        match hk {
                            0 => boxed_case::<DynSizedStructure<TagHeader>>(ctx, "TagHeader", 8, 4, || TagHeader::new(TagType::Custom(0x1337), 0), &content, &split, &none),
                            1 => boxed_case::<DummyDstTag>(ctx, "DummyTestHeader", 8, 4, || DummyTestHeader::new(42, 0), &content, &split, &none),
                            2 => boxed_case::<DynSizedStructure<HeaderTagHeader>>(ctx, "HeaderTagHeader", 8, 4, || HeaderTagHeader::new(HeaderTagType::Address, HeaderTagFlag::Optional, 0), &content, &split, &none),
                            3 => boxed_case::<DynSizedStructure<BootInformationHeader>>(ctx, "BootInformationHeader", 8, 0, || unsafe { std::mem::transmute::<[u32; 2], BootInformationHeader>([0, 0xA5B6_C7D8]) }, &content, &split, &none),
                            _ => boxed_case::<DynSizedStructure<Multiboot2BasicHeader>>(ctx, "Multiboot2BasicHeader", 16, 8, || unsafe { std::mem::transmute::<[u32; 4], Multiboot2BasicHeader>([0xE852_50D6, 4, 0, 0]) }, &content, &split, &|b: &[u8]| {
                                let s = rd32(b, 0).wrapping_add(rd32(b, 4)).wrapping_add(rd32(b, 8)).wrapping_add(rd32(b, 12));
                                if s != 0 { Some("checksum does not match the patched length".to_string()) } else { None }
                            }),
                        }
                    });
                }
            }
        }
    }
    // structures of 2 GiB and of 4 GiB - 4: sizes whose top bit is set, and the largest size that still fits the 32-bit
    // size field without being a multiple of 8 (content = many slices into one 64 MiB buffer)
    ctx.bound("giant_structures", "new_boxed of a generic tag and a generic header tag with 2 GiB of content (declared size 0x80000008) followed by clone_dyn; new_boxed of a generic tag with a declared size of 0xFFFFFFFC (64 content slices): size field, in-memory size, content and clone compared in full");
    for which in 0..3 {
        ctx.leaf(|| J::obj().set("part", "giant_structures").set("case", ["tag of 2 GiB + 8, cloned", "header tag of 2 GiB + 8, cloned", "tag of 4 GiB - 4"][which]), |ctx| {
            ctx.state_direct();
            ctx.nontrivial();
            const CH: usize = 64 << 20;
            let chunk: Vec<u8> = (0..CH).map(|i| (i as u32).wrapping_mul(0x9E37_79B1).to_le_bytes()[3] | 1).collect();
            let total: usize = if which == 2 { 0xFFFF_FFFC } else { 0x8000_0008 };
            let n = total - 8;
            let mut parts: Vec<&[u8]> = vec![];
            let mut left = n;
            while left > 0 {
                let l = left.min(CH);
                parts.push(&chunk[..l]);
                left -= l;
            }
            let r = ctx.call("new_boxed + clone_dyn (giant)", || {
                let check = |bytes: &[u8]| -> Option<String> {
                    if bytes.len() != total {
                        return Some(format!("{} bytes up to the declared size, expected {}", bytes.len(), total));
                    }
                    let mut o = 8;
                    for p in &parts {
                        if &bytes[o..o + p.len()] != *p {
                            return Some(format!("content differs in the slice that starts at offset {}", o));
                        }
                        o += p.len();
                    }
                    None
                };
                if which == 1 {
                    let b = new_boxed::<DynSizedStructure<HeaderTagHeader>>(HeaderTagHeader::new(HeaderTagType::Relocatable, HeaderTagFlag::Optional, 0), &parts);
                    let size = b.header().size() as usize;
                    let sov = std::mem::size_of_val(&*b);
                    let bb = unsafe { std::slice::from_raw_parts(&*b as *const _ as *const u8, size.min(sov)) };
                    let mut bad = check(bb);
                    let c = clone_dyn::<DynSizedStructure<HeaderTagHeader>>(&b);
                    let (cs, csov) = (c.header().size() as usize, std::mem::size_of_val(&*c));
                    let cb = unsafe { std::slice::from_raw_parts(&*c as *const _ as *const u8, cs.min(csov)) };
                    if bad.is_none() && (cs != size || csov != sov || cb != bb) {
                        bad = Some(format!("the clone has size {} / in-memory size {} (original {} / {}) or different bytes", cs, csov, size, sov));
                    }
                    (size, sov, bad)
                } else {
                    let b = new_boxed::<DynSizedStructure<TagHeader>>(TagHeader::new(TagType::Custom(77), 0), &parts);
                    let size = b.header().size as usize;
                    let sov = std::mem::size_of_val(&*b);
                    let bb = unsafe { std::slice::from_raw_parts(&*b as *const _ as *const u8, size.min(sov)) };
                    let mut bad = check(bb);
                    if which == 0 {
                        let c = clone_dyn::<DynSizedStructure<TagHeader>>(&b);
                        let (cs, csov) = (c.header().size as usize, std::mem::size_of_val(&*c));
                        let cb = unsafe { std::slice::from_raw_parts(&*c as *const _ as *const u8, cs.min(csov)) };
                        if bad.is_none() && (cs != size || csov != sov || cb != bb) {
                            bad = Some(format!("the clone has size {} / in-memory size {} (original {} / {}) or different bytes", cs, csov, size, sov));
                        }
                    }
                    (size, sov, bad)
                }
            });
            match r {
                Out::Panic => ctx.violation("c16/giant/panic", || format!("new_boxed / clone_dyn panicked for a structure of {:#x} bytes", total)),
                Out::Val((size, sov, bad)) => {
                    ctx.ob("giant.size", size as u64);
                    if size != total || sov != round8(total) || bad.is_some() {
                        ctx.violation("c16/giant/layout", || format!("structure of {:#x} bytes: size field {:#x}, in-memory size {:#x}; {}", total, size, sov, bad.unwrap_or_default()));
                    } else {
                        ctx.class("giant:ok");
                    }
                }
            }
        });
    }
    // an allocator that hands out blocks back to back (a kernel's early bump allocator): the source slice ends exactly
    // where the new block begins, and a clone lies directly behind its original
    ctx.bound("adjacent_blocks", "under a bump allocator without gaps: new_boxed from one heap-allocated source slice of 0..=40 bytes that ends (a) exactly at, (b) 1..7 bytes before the fresh allocation, then clone_dyn of the result (the clone directly behind the original); generic tag header and DummyDstTag");
    for n in 0..=40usize {
        for pad in [true, false] {
            for which in 0..2 {
                ctx.leaf(|| J::obj().set("part", "adjacent_blocks").set("content_len", n).set("source_ends_at_new_block", pad || n % 8 == 0).set("type", ["GenericTag", "DummyDstTag"][which]), |ctx| {
                    ctx.state_direct();
                    ctx.nontrivial();
                    ledger::bump(true);
                    let pre = if pad { (8 - n % 8) % 8 } else { 0 };
                    let mut prefix: Vec<u8> = Vec::with_capacity(pre);
                    prefix.resize(pre, 0xEE);
                    let mut src: Vec<u8> = Vec::with_capacity(n);
                    for i in 0..n {
                        src.push(marker(i, 91));
                    }
                    let r = ctx.call("new_boxed + clone_dyn (adjacent blocks)", || {
                        if which == 0 {
                            let b = new_boxed::<DynSizedStructure<TagHeader>>(TagHeader::new(TagType::Custom(77), 0), &[&src]);
                            let c = clone_dyn::<DynSizedStructure<TagHeader>>(&b);
                            let (ab, ac) = (&*b as *const _ as *const u8 as usize, &*c as *const _ as *const u8 as usize);
                            (ab, ac, unsafe { std::slice::from_raw_parts(ab as *const u8, 8 + n) }.to_vec(), unsafe { std::slice::from_raw_parts(ac as *const u8, 8 + n) }.to_vec())
                        } else {
                            let b = new_boxed::<DummyDstTag>(DummyTestHeader::new(42, 0), &[&src]);
                            let c = clone_dyn::<DummyDstTag>(&b);
                            let (ab, ac) = (&*b as *const _ as *const u8 as usize, &*c as *const _ as *const u8 as usize);
                            (ab, ac, unsafe { std::slice::from_raw_parts(ab as *const u8, 8 + n) }.to_vec(), unsafe { std::slice::from_raw_parts(ac as *const u8, 8 + n) }.to_vec())
                        }
                    });
                    let src_end = src.as_ptr() as usize + n;
                    ledger::bump(false);
                    match r {
                        Out::Panic => ctx.violation("c16/adjacent/panic", || format!("new_boxed / clone_dyn panicked with a {}-byte source slice that ends {} the fresh allocation", n, if pad || n % 8 == 0 { "exactly at" } else { "a few bytes before" })),
                        Out::Val((ab, ac, bb, cb)) => {
                            ctx.ob("adjacent.gap", (ab.wrapping_sub(src_end)) as u64);
                            ctx.ob("adjacent.clone_gap", (ac.wrapping_sub(ab)) as u64);
                            if n > 0 && (pad || n % 8 == 0) && ab != src_end {
                                ctx.machinery("bump allocator did not place the new block directly behind the source slice");
                            }
                            if bb[8..] != src[..] || rd32(&bb, 4) as usize != 8 + n || cb != bb {
                                ctx.violation("c16/adjacent/bytes", || format!("{} content bytes: original {:02x?}, clone {:02x?}, source {:02x?}", n, bb, cb, src));
                            } else {
                                ctx.class("adjacent:ok");
                            }
                        }
                    }
                });
            }
        }
    }
    ctx.bound("clone_dyn", "clone_dyn on every DST kind of both crates and DummyDstTag for content lengths 0..=24 (every padding residue), 255..=257, 4095..=4097, 65500..=65545 (every residue on both sides of a 64 KiB structure) and 2^20 - 12..=2^20 + 4");
    let mut clone_ns: Vec<usize> = (0..=24).collect();
    clone_ns.extend([255, 256, 257, 4095, 4096, 4097]);
    clone_ns.extend(65500..=65545);
    clone_ns.extend((1 << 20) - 12..=(1 << 20) + 4);
    for n in clone_ns {
        let blob: Vec<u8> = (0..n).map(|i| marker(i, 63)).collect();
        let text: String = (0..n).map(|i| (b'a' + (i % 26) as u8) as char).collect();
        macro_rules! cl {
            ($key:expr, $t:ty, $size:expr, $make:expr) => {
                ctx.leaf(|| J::obj().set("part", "clone_dyn").set("kind", $key).set("content_len", n), |ctx| {
                    ctx.state_direct();
                    ctx.nontrivial();
                    clone_case::<$t>(ctx, $key, &$size, $make);
                });
            };
        }
        cl!("CommandLineTag", CommandLineTag, |t: &CommandLineTag| t.header().size as usize, || CommandLineTag::new(&text));
        cl!("BootLoaderNameTag", BootLoaderNameTag, |t: &BootLoaderNameTag| t.header().size as usize, || BootLoaderNameTag::new(&text));
        cl!("ModuleTag", ModuleTag, |t: &ModuleTag| t.header().size as usize, || ModuleTag::new(1, 2, &text));
        cl!("SmbiosTag", SmbiosTag, |t: &SmbiosTag| t.header().size as usize, || SmbiosTag::new(1, 2, &blob));
        cl!("NetworkTag", NetworkTag, |t: &NetworkTag| t.header().size as usize, || NetworkTag::new(&blob));
        cl!("ElfSectionsTag", ElfSectionsTag, |t: &ElfSectionsTag| t.header().size as usize, || ElfSectionsTag::new(0, 64, 0, &blob));
        cl!("EFIMemoryMapTag", EFIMemoryMapTag, |t: &EFIMemoryMapTag| t.header().size as usize, || EFIMemoryMapTag::new_from_map(48, 1, &blob));
        cl!("GenericTag", DynSizedStructure<TagHeader>, |t: &DynSizedStructure<TagHeader>| t.header().size as usize, || new_boxed::<DynSizedStructure<TagHeader>>(TagHeader::new(TagType::Custom(77), 0), &[&blob]));
        cl!("GenericHeaderTag", DynSizedStructure<HeaderTagHeader>, |t: &DynSizedStructure<HeaderTagHeader>| t.header().size() as usize, || new_boxed::<DynSizedStructure<HeaderTagHeader>>(HeaderTagHeader::new(HeaderTagType::Relocatable, HeaderTagFlag::Optional, 0), &[&blob]));
        cl!("BootInformation", DynSizedStructure<BootInformationHeader>, |t: &DynSizedStructure<BootInformationHeader>| t.header().total_size() as usize, || new_boxed::<DynSizedStructure<BootInformationHeader>>(unsafe { std::mem::transmute::<[u32; 2], BootInformationHeader>([0, 0xA5B6_C7D8]) }, &[&blob]));
        cl!("Multiboot2Header", DynSizedStructure<Multiboot2BasicHeader>, |t: &DynSizedStructure<Multiboot2BasicHeader>| t.header().length() as usize, || new_boxed::<DynSizedStructure<Multiboot2BasicHeader>>(unsafe { std::mem::transmute::<[u32; 4], Multiboot2BasicHeader>([0xE852_50D6, 4, 0, 0]) }, &[&blob]));
        cl!("DummyDstTag", DummyDstTag, |t: &DummyDstTag| t.header().size() as usize, || new_boxed::<DummyDstTag>(DummyTestHeader::new(42, 0), &[&blob]));
        if n <= 8 {
            let pal: Vec<FramebufferColor> = (0..n).map(|i| FramebufferColor { red: i as u8, green: 0x80 + i as u8, blue: 0xC0 + i as u8 }).collect();
            cl!("FramebufferTag", FramebufferTag, |t: &FramebufferTag| t.header().size as usize, || FramebufferTag::new(0x1000, 1, 2, 3, 4, FramebufferType::Indexed { palette: &pal }));
            let areas: Vec<MemoryArea> = (0..n).map(|i| MemoryArea::new(i as u64, 1, multiboot2::MemoryAreaType::Available)).collect();
            cl!("MemoryMapTag", MemoryMapTag, |t: &MemoryMapTag| t.header().size as usize, || MemoryMapTag::new(&areas));
            let reqs: Vec<MbiTagTypeId> = (0..n as u32).map(MbiTagTypeId::new).collect();
            cl!("InformationRequestHeaderTag", InformationRequestHeaderTag, |t: &InformationRequestHeaderTag| t.size() as usize, || InformationRequestHeaderTag::new(HeaderTagFlag::Required, &reqs));
        }
    }
    let _ = |h: &TagHeader| h.payload_len();
}

fn main() {
    main_wrap("C16", run);
}
