//! C12 - building then loading a header preserves its tags and is
//! spec-well-formed (terminated by an end tag).
use mbvlib::spec::hd;
use mbvlib::spec::*;
use mbvlib::*;
use multiboot2_common::MaybeDynSized;
use multiboot2_header::*;

#[global_allocator]
static A: ledger::Counting = ledger::Counting;

const NSLOTS: usize = 10;
const SLOT_NAMES: [&str; NSLOTS] = ["information_request_tag", "address_tag", "entry_tag", "console_tag", "framebuffer_tag", "module_align_tag", "efi_bs_tag", "efi_32_tag", "efi_64_tag", "relocatable_tag"];

fn supplied<T: MaybeDynSized<Header = HeaderTagHeader> + ?Sized>(t: &T) -> Vec<u8> {
    let b = t.as_bytes();
    b[..t.header().size() as usize].to_vec()
}

/// Content seeds from LOOK_BASE on select "look-alike" contents: the tag's 32-bit fields are taken, digit by digit,
/// from LOOK (values that make tag bytes resemble an end tag, a tag header or the header magic).
const LOOK_BASE: usize = 1 << 24;
const LOOK: [u32; 4] = [0, 8, 16, 0xE852_50D6];

/// Content seeds from REAL_BASE on select realistic contents (values as real kernels put them into their headers):
/// code % 2 = flag, code / 2 = variant.
const REAL_BASE: usize = 1 << 25;
const REAL_VARIANTS: [usize; NSLOTS] = [4, 3, 2, 2, 4, 1, 1, 2, 2, 4];

/// Content seeds from DIST_BASE on: addresses at a small distance d from a base H (code = 2 * d + (1 if H = 0 else 0),
/// H = 1 MiB otherwise): values that fall into, or just behind, the header itself when the header is taken to lie at H.
const DIST_BASE: usize = 1 << 26;

fn call(b: Builder, m: &mut Vec<Option<Vec<u8>>>, slot: usize, c: usize) -> Builder {
    if c >= DIST_BASE {
        let code = c - DIST_BASE;
        let h: u32 = if code % 2 == 1 { 0 } else { 0x10_0000 };
        let d = (code / 2) as u32;
        let fl = HeaderTagFlag::Required;
        return match slot {
            1 => {
                let t = AddressHeaderTag::new(fl, h, h, h + d, h + d);
                m[slot] = Some(supplied(&t));
                b.address_tag(t)
            }
            2 => {
                let t = EntryAddressHeaderTag::new(fl, h + d);
                m[slot] = Some(supplied(&t));
                b.entry_tag(t)
            }
            7 => {
                let t = EntryEfi32HeaderTag::new(fl, h + d);
                m[slot] = Some(supplied(&t));
                b.efi_32_tag(t)
            }
            8 => {
                let t = EntryEfi64HeaderTag::new(fl, h + d);
                m[slot] = Some(supplied(&t));
                b.efi_64_tag(t)
            }
            9 => {
                let t = RelocatableHeaderTag::new(fl, h, h + d, 8, RelocatableHeaderTagPreference::None);
                m[slot] = Some(supplied(&t));
                b.relocatable_tag(t)
            }
            _ => call(b, m, slot, (d % 4) as usize),
        };
    }
    if c >= REAL_BASE {
        let code = c - REAL_BASE;
        let fl = if code % 2 == 0 { HeaderTagFlag::Required } else { HeaderTagFlag::Optional };
        let v = (code / 2) % REAL_VARIANTS[slot];
        return match slot {
            0 => {
                let lists: [&[u32]; 4] = [&[1, 6, 8], &[4, 6, 17, 18, 19, 20], &[11, 12, 14, 15], &[9, 3, 2, 1, 5, 7, 10, 13, 16, 21]];
                let reqs: Vec<MbiTagTypeId> = lists[v].iter().map(|&x| MbiTagTypeId::new(x)).collect();
                let t = InformationRequestHeaderTag::new(fl, &reqs);
                m[slot] = Some(supplied(&*t));
                b.information_request_tag(t)
            }
            1 => {
                let a = [(0x10_0000u32, 0x10_0000u32, 0x20_0000u32, 0x30_0000u32), (0x10_0010, 0x10_0000, 0, 0), (0x10_0000, 0xFFFF_FFFF, 0, 0)][v];
                let t = AddressHeaderTag::new(fl, a.0, a.1, a.2, a.3);
                m[slot] = Some(supplied(&t));
                b.address_tag(t)
            }
            2 => {
                let t = EntryAddressHeaderTag::new(fl, [0x10_0000, 0x10_1000][v]);
                m[slot] = Some(supplied(&t));
                b.entry_tag(t)
            }
            3 => {
                let t = ConsoleHeaderTag::new(fl, [ConsoleHeaderTagFlags::ConsoleRequired, ConsoleHeaderTagFlags::EgaTextSupported][v]);
                m[slot] = Some(supplied(&t));
                b.console_tag(t)
            }
            4 => {
                let f = [(80u32, 25u32, 0u32), (640, 480, 32), (1024, 768, 32), (0, 0, 0)][v];
                let t = FramebufferHeaderTag::new(fl, f.0, f.1, f.2);
                m[slot] = Some(supplied(&t));
                b.framebuffer_tag(t)
            }
            7 => {
                let t = EntryEfi32HeaderTag::new(fl, [0x10_0000, 0x10_1000][v]);
                m[slot] = Some(supplied(&t));
                b.efi_32_tag(t)
            }
            8 => {
                let t = EntryEfi64HeaderTag::new(fl, [0x10_0000, 0x10_1000][v]);
                m[slot] = Some(supplied(&t));
                b.efi_64_tag(t)
            }
            9 => {
                // (the last one: exactly the load range the first realistic address tag declares)
                let r = [(0x10_0000u32, 0xFFFF_FFFFu32, 4096u32, RelocatableHeaderTagPreference::None), (0x20_0000, 0x3FFF_FFFF, 0x20_0000, RelocatableHeaderTagPreference::High), (0, 0x10_0000, 4096, RelocatableHeaderTagPreference::Low), (0x10_0000, 0x20_0000, 4096, RelocatableHeaderTagPreference::None)][v].clone();
                let t = RelocatableHeaderTag::new(fl, r.0, r.1, r.2, r.3);
                m[slot] = Some(supplied(&t));
                b.relocatable_tag(t)
            }
            _ => call(b, m, slot, code % 2),
        };
    }
    if c >= LOOK_BASE {
        let code = c - LOOK_BASE;
        let fl = if code % 2 == 0 { HeaderTagFlag::Required } else { HeaderTagFlag::Optional };
        let d = |i: u32| LOOK[(code / 2 / 4usize.pow(i)) % 4];
        return match slot {
            0 => {
                // digits are request ids; the count is in the digit above them (0..=4)
                let n = (code / 2 / 4usize.pow(4)) % 5;
                let reqs: Vec<MbiTagTypeId> = (0..n as u32).map(|i| MbiTagTypeId::new(d(i))).collect();
                let t = InformationRequestHeaderTag::new(fl, &reqs);
                m[slot] = Some(supplied(&*t));
                b.information_request_tag(t)
            }
            1 => {
                let t = AddressHeaderTag::new(fl, d(0), d(1), d(2), d(3));
                m[slot] = Some(supplied(&t));
                b.address_tag(t)
            }
            2 => {
                let t = EntryAddressHeaderTag::new(fl, d(0));
                m[slot] = Some(supplied(&t));
                b.entry_tag(t)
            }
            4 => {
                let t = FramebufferHeaderTag::new(fl, d(0), d(1), d(2));
                m[slot] = Some(supplied(&t));
                b.framebuffer_tag(t)
            }
            7 => {
                let t = EntryEfi32HeaderTag::new(fl, d(0));
                m[slot] = Some(supplied(&t));
                b.efi_32_tag(t)
            }
            8 => {
                let t = EntryEfi64HeaderTag::new(fl, d(0));
                m[slot] = Some(supplied(&t));
                b.efi_64_tag(t)
            }
            9 => {
                let t = RelocatableHeaderTag::new(fl, d(0), d(1), d(2), [RelocatableHeaderTagPreference::None, RelocatableHeaderTagPreference::Low, RelocatableHeaderTagPreference::High][(code / 2 / 64) % 3]);
                m[slot] = Some(supplied(&t));
                b.relocatable_tag(t)
            }
            _ => call(b, m, slot, code % 12),
        };
    }
    let s = c as u32;
    let fl = if c % 2 == 0 { HeaderTagFlag::Required } else { HeaderTagFlag::Optional };
    match slot {
        0 => {
            let reqs: Vec<MbiTagTypeId> = (0..c as u32).map(|i| MbiTagTypeId::new(if i % 2 == 0 { i + 1 } else { 0x1300 + i })).collect();
            let t = InformationRequestHeaderTag::new(fl, &reqs);
            m[slot] = Some(supplied(&*t));
            b.information_request_tag(t)
        }
        1 => {
            let t = AddressHeaderTag::new(fl, 0x10_0000 + s, 0x10_1000 + s, 0x20_0000 + s, 0x30_0000 + s);
            m[slot] = Some(supplied(&t));
            b.address_tag(t)
        }
        2 => {
            let t = EntryAddressHeaderTag::new(fl, 0x10_2000 + s);
            m[slot] = Some(supplied(&t));
            b.entry_tag(t)
        }
        3 => {
            let t = ConsoleHeaderTag::new(fl, if c % 4 < 2 { ConsoleHeaderTagFlags::ConsoleRequired } else { ConsoleHeaderTagFlags::EgaTextSupported });
            m[slot] = Some(supplied(&t));
            b.console_tag(t)
        }
        4 => {
            let t = FramebufferHeaderTag::new(fl, 1024 + s, 768 + s, 32);
            m[slot] = Some(supplied(&t));
            b.framebuffer_tag(t)
        }
        5 => {
            let t = ModuleAlignHeaderTag::new(fl);
            m[slot] = Some(supplied(&t));
            b.module_align_tag(t)
        }
        6 => {
            let t = EfiBootServiceHeaderTag::new(fl);
            m[slot] = Some(supplied(&t));
            b.efi_bs_tag(t)
        }
        7 => {
            let t = EntryEfi32HeaderTag::new(fl, 0x10_3000 + s);
            m[slot] = Some(supplied(&t));
            b.efi_32_tag(t)
        }
        8 => {
            let t = EntryEfi64HeaderTag::new(fl, 0x10_4000 + s);
            m[slot] = Some(supplied(&t));
            b.efi_64_tag(t)
        }
        _ => {
            let t = RelocatableHeaderTag::new(fl, 0x20_0000 + s, 0x3FFF_0000 + s, 4096, [RelocatableHeaderTagPreference::None, RelocatableHeaderTagPreference::Low, RelocatableHeaderTagPreference::High][c % 3]);
            m[slot] = Some(supplied(&t));
            b.relocatable_tag(t)
        }
    }
}

fn judge(ctx: &mut Ctx, what: &dyn Fn() -> String, arch: u32, m: &[Option<Vec<u8>>], built: &[u8], addr: usize) {
    let mut bad: Vec<String> = vec![];
    if addr % 8 != 0 {
        bad.push("not 8-aligned".into());
    }
    if built.len() < 16 || built.len() % 8 != 0 {
        ctx.violation("c12/length", || format!("{}: built header has {} bytes", what(), built.len()));
        return;
    }
    if rd32(built, 0) != hd::MAGIC {
        bad.push(format!("magic {:#x}", rd32(built, 0)));
    }
    if rd32(built, 4) != arch {
        bad.push(format!("architecture word {} but {} was chosen", rd32(built, 4), arch));
    }
    if rd32(built, 8) as usize != built.len() {
        bad.push(format!("length word {} but the header is {} bytes long", rd32(built, 8), built.len()));
    }
    if rd32(built, 0).wrapping_add(rd32(built, 4)).wrapping_add(rd32(built, 8)).wrapping_add(rd32(built, 12)) != 0 {
        bad.push("checksum does not make the four words sum to 0".into());
    }
    match ctx.call("load", || unsafe { Multiboot2Header::load(built.as_ptr() as *const Multiboot2BasicHeader).map(|h| h.length()) }) {
        Out::Val(Ok(_)) => {}
        other => bad.push(format!("load fails: {:?}", other)),
    }
    if !bad.is_empty() {
        ctx.violation("c12/well-formedness", || format!("{}: {}", what(), bad.join("; ")));
        return;
    }
    let (items, refuse) = hwalk(&built[16..]);
    if refuse {
        ctx.violation("c12/walk", || format!("{}: the tag walk of the built header is malformed", what()));
        return;
    }
    for i in &items {
        ctx.tx.bytes(&built[16 + i.off..16 + i.off + i.size]);
    }
    // the library's own walk of the built header (iter() in every state) sees exactly these tags
    {
        let base = built.as_ptr() as usize;
        let r = ctx.call("iter() of the built header", || {
            let h = unsafe { Multiboot2Header::load(built.as_ptr() as *const Multiboot2BasicHeader) }.unwrap();
            let off = |t: &multiboot2_common::DynSizedStructure<multiboot2_header::HeaderTagHeader>| t as *const _ as *const u8 as usize - base;
            let offs: Vec<usize> = h.iter().map(off).collect();
            let cnt = h.iter().count();
            let last = h.iter().last().map(off);
            let mut it = h.iter();
            let first = it.next().map(off);
            let cnt1 = it.clone().count();
            let last1 = it.last().map(off);
            let mut d = h.iter();
            while d.next().is_some() {}
            (offs, cnt, last, first, cnt1, last1, d.clone().last().is_none(), d.count())
        });
        let want: Vec<usize> = items.iter().map(|i| 16 + i.off).collect();
        let n = want.len();
        match r {
            Out::Val((offs, cnt, last, first, cnt1, last1, dl, dc)) => {
                if offs != want || cnt != n || last != want.last().copied() || first != want.first().copied() || cnt1 != n.saturating_sub(1) || last1 != (if n >= 2 { want.last().copied() } else { None }) || !dl || dc != 0 {
                    ctx.violation("c12/library-walk", || format!("{}: iter() of the built header yields offsets {:?}, count() {}, last() {:?}; after one next() ({:?}): count() {}, last() {:?}; drained: last() is None = {}, count() = {}; the built bytes hold tags at {:?}", what(), offs, cnt, last, first, cnt1, last1, dl, dc, want));
                    return;
                }
            }
            Out::Panic => {
                ctx.violation("c12/library-walk", || format!("{}: iter() of the built header panicked", what()));
                return;
            }
        }
    }
    // terminated by an end tag (type 0, flags 0, size 8) as the final 8 bytes
    let last = items.last();
    if last.map(|l| (l.typ, l.flags, l.size, l.off + 16 + 8)) != Some((0, 0, 8, built.len())) {
        ctx.violation("c12/no-end-tag", || format!("{}: the built header is not terminated by an end tag (type 0, flags 0, size 8): last tag {:?}, {} bytes", what(), last, built.len()));
        return;
    }
    let mut walked: Vec<&[u8]> = items[..items.len() - 1].iter().map(|i| &built[16 + i.off..16 + i.off + i.size]).collect();
    for (s, w) in m.iter().enumerate() {
        if let Some(w) = w {
            match walked.iter().position(|x| *x == &w[..]) {
                Some(i) => {
                    walked.remove(i);
                }
                None => {
                    ctx.violation(&format!("c12/dropped-or-altered/{}", SLOT_NAMES[s]), || format!("{}: the supplied {} ({} bytes) is not in the built header byte-identically", what(), SLOT_NAMES[s], w.len()));
                    return;
                }
            }
        }
    }
    if !walked.is_empty() {
        let t = rd16(walked[0], 0);
        ctx.violation(&format!("c12/extra-tag/{}", hd::kind_name(t)), || format!("{}: the built header contains {} tag(s) that were not supplied (first: type {})", what(), walked.len(), t));
        return;
    }
    ctx.class("build:exact");
}

fn run_program(ctx: &mut Ctx, arch: u32, prog: &[(usize, usize)], what: &dyn Fn() -> String) {
    let isa = if arch == 0 { HeaderTagISA::I386 } else { HeaderTagISA::MIPS32 };
    {
        let mut m: Vec<Option<Vec<u8>>> = vec![None; NSLOTS];
        let r = ctx.call("builder calls + build", || {
            let mut b = Builder::new(isa);
            for &(slot, c) in prog {
                b = call(b, &mut m, slot, c);
            }
            b.build()
        });
        match r {
            Out::Panic => {
                ctx.violation("c12/panic", || format!("{}: builder panicked", what()));
                return;
            }
            Out::Val(s) => {
                let bytes = s.as_bytes();
                judge(ctx, what, arch, &m, &bytes, bytes.as_ptr() as usize);
            }
        }
    }
    let live0 = ledger::live();
    let r = ctx.call("build (ledger)", || {
        let mut m: Vec<Option<Vec<u8>>> = vec![None; NSLOTS];
        let mut b = Builder::new(isa);
        for &(slot, c) in prog {
            b = call(b, &mut m, slot, c);
        }
        b.build().as_bytes().len()
    });
    let live1 = ledger::live();
    if !r.is_panic() && live1 != live0 {
        ctx.class("ledger:allocations-left-live");
    }
}

fn run(ctx: &mut Ctx) {
    run_program_warm();
    ctx.bound("subsets", "all 2^10 subsets of the builder slots x both architectures, in canonical and in reversed call order");
    for arch in [0u32, 4] {
        for rev in [false, true] {
            for mask in 0u32..(1 << NSLOTS) {
                let describe = || J::obj().set("part", "subset").set("architecture", arch).set("reversed_call_order", rev).set("slots", J::Arr((0..NSLOTS).filter(|s| mask >> s & 1 == 1).map(|s| J::from(SLOT_NAMES[s])).collect()));
                ctx.leaf(describe, |ctx| {
                    ctx.state_direct();
                    ctx.nontrivial();
                    let mut prog: Vec<(usize, usize)> = (0..NSLOTS).filter(|s| mask >> s & 1 == 1).map(|s| (s, 3)).collect();
                    if rev {
                        prog.reverse();
                    }
                    run_program(ctx, arch, &prog, &|| format!("subset {:#x} arch {} reversed {}", mask, arch, rev));
                });
            }
        }
    }
    let depth = if ctx.quick() { 4 } else if ctx.dev_profile() { 5 } else { 6 };
    ctx.bound("sequences", format!("all call sequences of length <= {} over 20 symbols (10 builder calls x 2 distinguishable contents)", depth));
    for len in 0..=depth {
        for code in 0..20usize.pow(len as u32) {
            let mut prog = vec![];
            let mut c = code;
            for _ in 0..len {
                prog.push(((c % 20) / 2, 1 + (c % 20) % 2));
                c /= 20;
            }
            let describe = || J::obj().set("part", "sequence").set("calls", J::Arr(prog.iter().map(|(s, c)| J::from(format!("{}#{}", SLOT_NAMES[*s], c))).collect()));
            ctx.leaf(describe, |ctx| {
                ctx.state_direct();
                ctx.nontrivial();
                run_program(ctx, (len as u32 % 2) * 4, &prog, &|| format!("calls {:?}", prog));
            });
        }
    }
    ctx.bound("contents", "information-request lists of length 0..=24, 255..=257, 16383, 16384; every content seed 0..=11 of every slot (all flag / console / preference variants) between two other tags, both architectures");
    for slot in 0..NSLOTS {
        for c in (0..=(if slot == 0 { 24 } else { 11 })).chain(if slot == 0 { vec![255usize, 256, 257, 16383, 16384] } else { vec![] }) {
            for arch in [0u32, 4] {
                let prog = vec![(1usize, 0usize), (slot, c), (9, 2)];
                let describe = || J::obj().set("part", "contents").set("slot", SLOT_NAMES[slot]).set("content_seed", c).set("architecture", arch);
                ctx.leaf(describe, |ctx| {
                    ctx.state_direct();
                    ctx.nontrivial();
                    run_program(ctx, arch, &prog, &|| format!("contents {} seed {} arch {}", SLOT_NAMES[slot], c, arch));
                });
            }
        }
    }
    ctx.bound("lookalike_contents", "every slot with 32-bit fields: all field combinations over {0, 8, 16, 0xE85250D6} (information requests: all lists of length 0..=4 over those ids, 0 = End and 8 = Framebuffer), both flags, with the tag alone (so it is the last tag before the end tag), before a module-align tag and after an information request; tag bytes that look like an end tag, a tag header or the magic must neither end the built header early nor stop it loading");
    for slot in [0usize, 1, 2, 4, 7, 8, 9] {
        let ncodes = 2 * match slot {
            0 => 4usize.pow(4) * 5,
            1 => 256,
            4 => 64,
            9 => 64 * 3,
            _ => 4,
        };
        for code in 0..ncodes {
            if slot == 0 {
                // digits above the count are unused
                let n = (code / 2 / 256) % 5;
                if (code / 2 % 256) / 4usize.pow(n as u32) != 0 {
                    continue;
                }
            }
            for shape in 0..3 {
                let me = (slot, LOOK_BASE + code);
                let prog: Vec<(usize, usize)> = match shape {
                    0 => vec![me],
                    1 => vec![me, (5, 0)],
                    _ => vec![(if slot == 0 { 1 } else { 0 }, 2), me],
                };
                let describe = || J::obj().set("part", "lookalike").set("slot", SLOT_NAMES[slot]).set("code", code).set("shape", ["alone", "before module_align", "after another tag"][shape]).set("fields_from", "digits of code/2 in base 4 index {0, 8, 16, 0xE85250D6}");
                ctx.leaf(describe, |ctx| {
                    ctx.state_direct();
                    ctx.nontrivial();
                    run_program(ctx, (code as u32 % 2) * 4, &prog, &|| format!("look-alike contents {} code {} shape {}", SLOT_NAMES[slot], code, shape));
                });
            }
        }
    }
    // addresses relative to one another and to the header's own extent
    ctx.bound("relative_addresses", "with H in {1 MiB, 0} and every distance d in 0..=260: address tag (header at H, load end / bss end at H + d) alone and followed by an entry / EFI32 entry / EFI64 entry address of H + d; a relocatable tag with the window H..H + d; each also behind an information request of 0..=3 entries (the built header is 40..130 bytes long, so d passes through every offset inside and just behind it)");
    for d in 0..=260usize {
        for h0 in 0..2usize {
            let c = DIST_BASE + 2 * d + h0;
            let mut progs: Vec<Vec<(usize, usize)>> = vec![vec![(1, c)], vec![(9, c)], vec![(1, c), (9, c)]];
            for e in [2usize, 7, 8] {
                progs.push(vec![(1, DIST_BASE + h0), (e, c)]);
                progs.push(vec![(e, c), (1, DIST_BASE + h0)]);
                progs.push(vec![(e, c)]);
            }
            let n = progs.len();
            for i in 0..n {
                let mut p = vec![(0usize, d % 4)];
                p.extend(progs[i].iter().copied());
                progs.push(p);
            }
            for prog in progs {
                let describe = || J::obj().set("part", "relative_addresses").set("distance", d).set("base", if h0 == 1 { "0" } else { "1 MiB" }).set("calls", J::Arr(prog.iter().map(|(s, c)| J::from(format!("{}#{}", SLOT_NAMES[*s], if *c >= DIST_BASE { c - DIST_BASE } else { *c }))).collect()));
                ctx.leaf(describe, |ctx| {
                    ctx.state_direct();
                    ctx.nontrivial();
                    run_program(ctx, 0, &prog, &|| format!("relative addresses: distance {} base {} calls {:?}", d, if h0 == 1 { "0" } else { "1 MiB" }, prog.iter().map(|p| (SLOT_NAMES[p.0], if p.1 >= DIST_BASE { p.1 - DIST_BASE } else { p.1 })).collect::<Vec<_>>()));
                });
            }
        }
    }
    // realistic contents, two tags at a time: what one tag says must not change what happens to another
    ctx.bound("realistic_pairs", "every pair of slots x every combination of their realistic contents (information requests incl. the EFI types, typical load / entry addresses, both console flags, framebuffer 80x25x0 / 640x480x32 / 1024x768x32 / 0x0x0, three relocation requests) x both flags each x both architectures x both call orders");
    for a in 0..NSLOTS {
        for b2 in a + 1..NSLOTS {
            for ca in 0..2 * REAL_VARIANTS[a] {
                for cb in 0..2 * REAL_VARIANTS[b2] {
                    for arch in [0u32, 4] {
                        for rev in [false, true] {
                            let mut prog = vec![(a, REAL_BASE + ca), (b2, REAL_BASE + cb)];
                            if rev {
                                prog.reverse();
                            }
                            let describe = || J::obj().set("part", "realistic_pairs").set("first", format!("{}#{}", SLOT_NAMES[prog[0].0], prog[0].1 - REAL_BASE)).set("second", format!("{}#{}", SLOT_NAMES[prog[1].0], prog[1].1 - REAL_BASE)).set("architecture", arch);
                            ctx.leaf(describe, |ctx| {
                                ctx.state_direct();
                                ctx.nontrivial();
                                run_program(ctx, arch, &prog, &|| format!("realistic pair {:?} arch {}", prog.iter().map(|p| (SLOT_NAMES[p.0], p.1 - REAL_BASE)).collect::<Vec<_>>(), arch));
                            });
                        }
                    }
                }
            }
        }
    }
    // realistic contents, three tags at a time (the slots that carry addresses or modes: address, entry, console,
    // framebuffer, the two EFI entries, relocatable)
    ctx.bound("realistic_triples", "every triple of the slots {address, entry, console, framebuffer, EFI32 entry, EFI64 entry, relocatable} x every combination of their realistic contents x all 8 flag combinations, architecture i386 (MIPS32 for every fourth)");
    {
        let slots = [1usize, 2, 3, 4, 7, 8, 9];
        let mut n = 0usize;
        for i in 0..slots.len() {
            for j in i + 1..slots.len() {
                for k in j + 1..slots.len() {
                    let (a, b2, c) = (slots[i], slots[j], slots[k]);
                    for ca in 0..2 * REAL_VARIANTS[a] {
                        for cb in 0..2 * REAL_VARIANTS[b2] {
                            for cc in 0..2 * REAL_VARIANTS[c] {
                                n += 1;
                                let arch = if n % 4 == 0 { 4 } else { 0 };
                                let prog = vec![(a, REAL_BASE + ca), (b2, REAL_BASE + cb), (c, REAL_BASE + cc)];
                                let describe = || J::obj().set("part", "realistic_triples").set("calls", J::Arr(prog.iter().map(|p| J::from(format!("{}#{}", SLOT_NAMES[p.0], p.1 - REAL_BASE))).collect())).set("architecture", arch);
                                ctx.leaf(describe, |ctx| {
                                    ctx.state_direct();
                                    ctx.nontrivial();
                                    run_program(ctx, arch, &prog, &|| format!("realistic triple {:?} arch {}", prog.iter().map(|p| (SLOT_NAMES[p.0], p.1 - REAL_BASE)).collect::<Vec<_>>(), arch));
                                });
                            }
                        }
                    }
                }
            }
        }
    }
    // the same setter called two or three times with contents that differ in the flags only / in the values only
    ctx.bound("setter_repeated", "every slot with fields: all ordered pairs and triples of calls of that setter over 6 look-alike contents (two flags x three value sets; information request: the empty list, [0] and [8] with both flags): the last call wins, byte for byte");
    for slot in [0usize, 1, 2, 4, 7, 8, 9] {
        let codes: Vec<usize> = if slot == 0 { vec![0, 1, 512, 513, 514, 515] } else { vec![0, 1, 2, 3, 4, 5] };
        for len in 2..=3usize {
            for c in 0..codes.len().pow(len as u32) {
                let prog: Vec<(usize, usize)> = (0..len).map(|i| (slot, LOOK_BASE + codes[(c / codes.len().pow(i as u32)) % codes.len()])).collect();
                let describe = || J::obj().set("part", "setter_repeated").set("slot", SLOT_NAMES[slot]).set("codes", J::Arr(prog.iter().map(|(_, c)| J::from(c - LOOK_BASE)).collect()));
                ctx.leaf(describe, |ctx| {
                    ctx.state_direct();
                    ctx.nontrivial();
                    run_program(ctx, 0, &prog, &|| format!("repeated setter {} codes {:?}", SLOT_NAMES[slot], prog.iter().map(|p| p.1 - LOOK_BASE).collect::<Vec<_>>()));
                });
            }
        }
    }
}

fn run_program_warm() {
    // (a panic of the library in here is not a harness failure: the same calls are judged inside the leaves)
    let _ = std::panic::catch_unwind(|| {
        let mut m: Vec<Option<Vec<u8>>> = vec![None; NSLOTS];
        let mut b = Builder::new(HeaderTagISA::I386);
        for s in 0..NSLOTS {
            b = call(b, &mut m, s, 2);
        }
        let _ = b.build();
    });
    let _ = std::panic::catch_unwind(|| panic!("warm"));
}

fn main() {
    main_wrap("C12", run);
}
