//! C05 - variable-length tag contents have exactly the extent the size implies.
use mbvlib::spec::bi;
use mbvlib::spec::*;
use mbvlib::*;
use multiboot2::{
    BootInformation, BootInformationHeader, BootLoaderNameTag, CommandLineTag, DynSizedStructure, EFIMemoryMapTag,
    ElfSectionsTag, FramebufferTag, FramebufferType, MemoryMapTag, ModuleTag, NetworkTag, SmbiosTag, TagHeader,
};
use multiboot2_header::{HeaderTagHeader, InformationRequestHeaderTag, Multiboot2BasicHeader, Multiboot2Header};

type Generic = DynSizedStructure<TagHeader>;

#[derive(Clone, Copy, Debug)]
struct Kind {
    name: &'static str,
    typ: u32,
    fixed: usize,
    elem: usize,
}

const KINDS: [Kind; 11] = [
    Kind { name: "Cmdline", typ: bi::CMDLINE, fixed: 8, elem: 1 },
    Kind { name: "BootLoaderName", typ: bi::BOOTLOADER, fixed: 8, elem: 1 },
    Kind { name: "Module", typ: bi::MODULE, fixed: 16, elem: 1 },
    Kind { name: "Mmap", typ: bi::MMAP, fixed: 16, elem: 24 },
    Kind { name: "Smbios", typ: bi::SMBIOS, fixed: 16, elem: 1 },
    Kind { name: "ElfSections", typ: bi::ELF, fixed: 20, elem: 1 },
    Kind { name: "EfiMmap", typ: bi::EFI_MMAP, fixed: 16, elem: 1 },
    Kind { name: "Network", typ: bi::NETWORK, fixed: 8, elem: 1 },
    Kind { name: "Framebuffer", typ: bi::FRAMEBUFFER, fixed: 32, elem: 1 },
    Kind { name: "Generic", typ: bi::CUSTOM, fixed: 8, elem: 1 },
    // the generic structure with the end type in its header: still a structure with a payload
    Kind { name: "GenericEnd", typ: 0, fixed: 8, elem: 1 },
];

/// What the typed view exposes: (metadata element count, size_of_val,
/// address offset of the typed reference, exposed slices as (name, offset from
/// the tag start, byte length)).
struct View {
    meta: usize,
    sov: usize,
    addr_off: i64,
    slices: Vec<(&'static str, i64, usize)>,
}

fn sl<T>(name: &'static str, s: &[T], base: *const u8) -> (&'static str, i64, usize) {
    (name, rel(s, base), std::mem::size_of_val(s))
}

fn view_of(kind: &Kind, g: &Generic, fbvar: u8) -> View {
    let base = g as *const Generic as *const u8;
    macro_rules! dst {
        ($t:ty, $slices:expr) => {{
            let t = g.cast::<$t>();
            let f: &dyn Fn(&$t) -> Vec<(&'static str, i64, usize)> = &$slices;
            View { meta: ptr_meta::metadata(t as *const $t), sov: std::mem::size_of_val(t), addr_off: rel(t, base), slices: f(t) }
        }};
    }
    let _ = fbvar;
    match kind.name {
        "Cmdline" => dst!(CommandLineTag, |t| t.cmdline().map(|s| vec![sl("text", s.as_bytes(), base)]).unwrap_or_default()),
        "BootLoaderName" => dst!(BootLoaderNameTag, |t| t.name().map(|s| vec![sl("text", s.as_bytes(), base)]).unwrap_or_default()),
        "Module" => dst!(ModuleTag, |t| t.cmdline().map(|s| vec![sl("text", s.as_bytes(), base)]).unwrap_or_default()),
        "Mmap" => dst!(MemoryMapTag, |t| vec![sl("memory_areas", t.memory_areas(), base)]),
        "Smbios" => dst!(SmbiosTag, |t| vec![sl("tables", t.tables(), base)]),
        "ElfSections" => dst!(ElfSectionsTag, |_t| vec![]),
        "EfiMmap" => dst!(EFIMemoryMapTag, |_t| vec![]),
        "Network" => dst!(NetworkTag, |_t| vec![]),
        "Framebuffer" => dst!(FramebufferTag, |t| match t.buffer_type() {
            Ok(FramebufferType::Indexed { palette }) => vec![sl("palette", palette, base)],
            _ => vec![],
        }),
        _ => dst!(Generic, |t| vec![sl("payload", t.payload(), base)]),
    }
}

/// Image of the tag under test: legal fixed fields, marker content.
fn image(kind: &Kind, size: u32, content_len: usize, fbvar: u8) -> Vec<u8> {
    // content_len bytes physically present after the header (>= what any
    // declared size up to the slice needs)
    let mut v = vec![0u8; 8 + content_len];
    for i in 8..v.len() {
        // variant 9 of the non-string kinds: all-zero content (zero elements must still count as elements)
        v[i] = if fbvar == 9 { 0 } else { marker(i, 4) };
    }
    wr32(&mut v, 0, kind.typ);
    wr32(&mut v, 4, size);
    let put32 = |v: &mut Vec<u8>, o: usize, x: u32| {
        if o + 4 <= v.len() {
            wr32(v, o, x)
        }
    };
    match kind.name {
        "Mmap" => {
            put32(&mut v, 8, 24);
            put32(&mut v, 12, 0);
        }
        "EfiMmap" => {
            put32(&mut v, 8, 48);
            put32(&mut v, 12, 1);
        }
        "ElfSections" => {
            put32(&mut v, 8, 0);
            put32(&mut v, 12, 64);
            put32(&mut v, 16, 0);
        }
        "Framebuffer" => {
            if v.len() > 29 {
                v[29] = if fbvar == 0xFF { 2 } else { 0 };
            }
            if v.len() >= 34 && fbvar != 0xFF {
                wr16(&mut v, 32, fbvar as u16);
            }
        }
        _ => {}
    }
    v
}

fn check_view(ctx: &mut Ctx, kind: &Kind, size: usize, fbvar: u8, r: Out<View>, seam: &'static str) {
    let refuse = size < kind.fixed || (size - kind.fixed) % kind.elem != 0;
    match r {
        Out::Panic => {
            ctx.ob("view.panic", 1);
            // the framebuffer palette may legitimately be refused when the stored count does not fit
            let fb_refuse = kind.name == "Framebuffer" && fbvar != 0xFF && size >= 32 && (size < 34 || 2 + 3 * fbvar as usize > size - 32);
            if refuse || fb_refuse {
                ctx.class("view:refused");
            } else {
                ctx.violation(&format!("c05/spurious-panic/{}/{}", kind.name, seam), || format!("viewing a {} tag of size {} panicked; fixed part {} and element size {} allow it", kind.name, size, kind.fixed, kind.elem));
            }
        }
        Out::Val(v) => {
            ctx.ob("view.meta", v.meta as u64);
            ctx.ob("view.sov", v.sov as u64);
            for s in &v.slices {
                ctx.ob("view.slice.off", s.1 as u64);
                ctx.ob("view.slice.len", s.2 as u64);
            }
            if refuse {
                ctx.violation(&format!("c05/accepted/{}/{}", kind.name, seam), || format!("a {} tag of size {} was accepted (element count {}); size below the fixed part {} or not divisible by {} must be rejected by a controlled panic", kind.name, size, v.meta, kind.fixed, kind.elem));
                return;
            }
            ctx.class("view:ok");
            let count = (size - kind.fixed) / kind.elem;
            if v.meta != count {
                ctx.violation(&format!("c05/count/{}/{}", kind.name, seam), || format!("{} tag of size {}: variable part has {} elements, expected ({} - {}) / {} = {}", kind.name, size, v.meta, size, kind.fixed, kind.elem, count));
            }
            if v.sov != round8(size) || v.addr_off != 0 {
                ctx.violation(&format!("c05/shape/{}/{}", kind.name, seam), || format!("{} tag of size {}: size_of_val {} (expected {}), address offset {}", kind.name, size, v.sov, round8(size), v.addr_off));
            }
            for (name, off, len) in &v.slices {
                if *name == "text" {
                    // a str handed out by a string kind: inside [fixed part, declared size)
                    if *off < kind.fixed as i64 || *off as usize + *len > size {
                        ctx.violation(&format!("c05/text-beyond-size/{}/{}", kind.name, seam), || format!("text of a {} tag of size {}: bytes [{}, {}) handed out, the string area is [{}, {})", kind.name, size, off, off + *len as i64, kind.fixed, size));
                    }
                    if *len > 0 && *off != kind.fixed as i64 {
                        ctx.violation(&format!("c05/text-start/{}/{}", kind.name, seam), || format!("text of a {} tag of size {}: starts at offset {}, the kind's fixed offset is {}", kind.name, size, off, kind.fixed));
                    }
                    continue;
                }
                if *name == "palette" {
                    let n = fbvar as usize;
                    let fits = size >= 34 && 2 + 3 * n <= size - 32;
                    if !fits {
                        ctx.violation(&format!("c05/palette-beyond-tag/{}", seam), || format!("framebuffer tag of size {} stores {} colours: palette [{}, {}) handed out, tag ends at {}", size, n, off, off + *len as i64, size));
                    } else if *off != 34 || *len != 3 * n {
                        ctx.violation(&format!("c05/palette-extent/{}", seam), || format!("palette at offset {} length {}, expected offset 34 length {}", off, len, 3 * n));
                    }
                } else if *off != kind.fixed as i64 || *len != size - kind.fixed {
                    ctx.violation(&format!("c05/extent/{}/{}/{}", kind.name, name, seam), || format!("{} of a {} tag of size {}: bytes [{}, {}), expected [{}, {})", name, kind.name, size, off, off + *len as i64, kind.fixed, size));
                }
            }
        }
    }
}

fn getter_view(kind: &Kind, bi: &BootInformation, rbase: *const u8, fbvar: u8) -> Option<(i64, View)> {
    // typed getter of the region-level seam: returns (offset of the tag in the region, view)
    macro_rules! g {
        ($e:expr, $t:ty, $slices:expr) => {{
            $e.map(|t: &$t| {
                let base = t as *const $t as *const u8;
                let f: &dyn Fn(&$t, *const u8) -> Vec<(&'static str, i64, usize)> = &$slices;
                (rel(t, rbase), View { meta: ptr_meta::metadata(t as *const $t), sov: std::mem::size_of_val(t), addr_off: 0, slices: f(t, base) })
            })
        }};
    }
    let _ = fbvar;
    match kind.name {
        "Cmdline" => g!(bi.command_line_tag(), CommandLineTag, |_t, _b| vec![]),
        "BootLoaderName" => g!(bi.boot_loader_name_tag(), BootLoaderNameTag, |_t, _b| vec![]),
        "Module" => g!(bi.module_tags().next(), ModuleTag, |_t, _b| vec![]),
        "Mmap" => g!(bi.memory_map_tag(), MemoryMapTag, |t, b| vec![sl("memory_areas", t.memory_areas(), b)]),
        "Smbios" => g!(bi.smbios_tag(), SmbiosTag, |t, b| vec![sl("tables", t.tables(), b)]),
        "ElfSections" => g!(bi.elf_sections_tag(), ElfSectionsTag, |_t, _b| vec![]),
        "EfiMmap" => g!(bi.efi_memory_map_tag(), EFIMemoryMapTag, |_t, _b| vec![]),
        "Network" => g!(bi.network_tag(), NetworkTag, |_t, _b| vec![]),
        "Framebuffer" => g!(bi.get_tag::<FramebufferTag>(), FramebufferTag, |t, b| match t.buffer_type() {
            Ok(FramebufferType::Indexed { palette }) => vec![sl("palette", palette, b)],
            _ => vec![],
        }),
        _ => None,
    }
}

/// Derived views of the two kinds whose variable part is handed out through an iterator (EFI descriptors, ELF section
/// headers): every element reachable through next/nth/skip/step_by/last lies inside [fixed part, declared size).
fn derived(ctx: &mut Ctx, arena: &Arena) {
    static INSIDE: &[u8] = b"inside\0";
    static PLANTED: &[u8] = b"PLANTED\0";
    let nmax = if ctx.quick() { 3 } else { 6 };
    ctx.bound("derived_views", format!("EFI map (desc_size 48, version 1): declared size 16..=16+48*{}+47, tag flush against a guard page and inside a region followed by a marker tag; fresh iterator x {{nth(k), next+nth(k), skip(k).next, step_by(k).nth(1), last, count, next+last, next+fold, drain+last}} for k in 0..=N+2, every yielded descriptor must sit at 16+48*i with i below (size-16)/48. ELF sections (entry size 64): 0..={} headers, each in use or unused (every combination), + 0..=23 spare bytes x string-table index 0..=N+1, followed by a tag holding planted string addresses; name() must resolve through a header inside the tag or be refused", nmax, nmax.min(3)));
    // ---------- EFI descriptors
    for size in 16..=(16 + 48 * nmax + 47) as u32 {
        for seam in 0..2 {
            let mut tut = vec![0u8; size as usize];
            for i in 8..tut.len() {
                tut[i] = marker(i, 9);
            }
            wr32(&mut tut, 0, bi::EFI_MMAP);
            wr32(&mut tut, 4, size);
            wr32(&mut tut, 8, 48);
            wr32(&mut tut, 12, 1);
            let n = (size as usize - 16) / 48;
            let describe = || J::obj().set("part", "derived/efi").set("seam", if seam == 0 { "tag" } else { "region" }).set("declared_size", size).set("tag", J::hex(&tut));
            ctx.leaf(describe, |ctx| {
                ctx.state_direct();
                ctx.nontrivial();
                arena.fill(arena::FILL_A);
                let (p, toff): (*const u8, usize) = if seam == 0 {
                    let mut img = tut.clone();
                    while img.len() % 8 != 0 {
                        img.push(0x5E);
                    }
                    (arena.place_right(&img), 0)
                } else {
                    let follower = bi::tag(0x12345678, &[0xA5; 56]);
                    let region = bi::region(&[tut.clone(), follower, bi::end_tag()], &bi::marker_pad);
                    (arena.place_right(&region), 8)
                };
                let holder: BootInformation;
                let tag: &EFIMemoryMapTag = if seam == 0 {
                    let slice: &[u8] = unsafe { std::slice::from_raw_parts(p, round8(size as usize)) };
                    match ctx.call("ref_from_slice", || Generic::ref_from_slice(slice).map(|g| g.cast::<EFIMemoryMapTag>())) {
                        Out::Val(Ok(t)) => t,
                        _ => {
                            ctx.violation("c05/derived/efi/view", || format!("EFI map tag of size {} refused", size));
                            return;
                        }
                    }
                } else {
                    let r = ctx.call("load", || unsafe { BootInformation::load(p as *const BootInformationHeader) });
                    let Out::Val(Ok(b)) = r else {
                        ctx.violation("c05/region-load", || "load failed on a well-formed region".into());
                        return;
                    };
                    holder = b;
                    match ctx.call("efi_memory_map_tag", || holder.efi_memory_map_tag()) {
                        Out::Val(Some(t)) => t,
                        _ => {
                            ctx.violation("c05/getter-none/EfiMmap", || "efi_memory_map_tag() returned nothing".into());
                            return;
                        }
                    }
                };
                let base = unsafe { p.add(toff) };
                // (label, items as offsets from the tag start, expected indices)
                let mut progs: Vec<(String, Out<Vec<i64>>, Vec<usize>)> = vec![];
                let all: Vec<usize> = (0..n).collect();
                progs.push(("collect".into(), ctx.call("collect", || tag.memory_areas().map(|d| rel(d, base)).collect()), all.clone()));
                progs.push(("last".into(), ctx.call("last", || tag.memory_areas().last().map(|d| rel(d, base)).into_iter().collect()), all.last().copied().into_iter().collect()));
                progs.push(("rev-count".into(), ctx.call("count", || vec![tag.memory_areas().count() as i64]), vec![]));
                progs.push(("next;last".into(), ctx.call("next+last", || { let mut it = tag.memory_areas(); let _ = it.next(); it.last().map(|d| rel(d, base)).into_iter().collect() }), if n >= 2 { vec![n - 1] } else { vec![] }));
                progs.push(("next;fold".into(), ctx.call("next+fold", || { let mut it = tag.memory_areas(); let _ = it.next(); it.fold(vec![], |mut v, d| { v.push(rel(d, base)); v }) }), all.iter().copied().skip(1).collect()));
                progs.push(("drain;last".into(), ctx.call("drain+last", || { let mut it = tag.memory_areas(); while it.next().is_some() {} it.clone().last().into_iter().chain(it.next()).map(|d| rel(d, base)).collect() }), vec![]));
                for k in 0..=n + 2 {
                    progs.push((format!("nth({})", k), ctx.call("nth", || tag.memory_areas().nth(k).map(|d| rel(d, base)).into_iter().collect()), all.iter().copied().skip(k).take(1).collect()));
                    progs.push((format!("next;nth({})", k), ctx.call("next+nth", || { let mut it = tag.memory_areas(); let _ = it.next(); it.nth(k).map(|d| rel(d, base)).into_iter().collect() }), all.iter().copied().skip(k + 1).take(1).collect()));
                    progs.push((format!("skip({}).next;next", k), ctx.call("skip", || { let mut it = tag.memory_areas().skip(k); let a = it.next(); let b = it.next(); a.into_iter().chain(b).map(|d| rel(d, base)).collect() }), all.iter().copied().skip(k).take(2).collect()));
                    if k >= 1 {
                        progs.push((format!("step_by({})", k), ctx.call("step_by", || tag.memory_areas().step_by(k).map(|d| rel(d, base)).collect()), all.iter().copied().step_by(k).collect()));
                    }
                }
                for (label, got, want) in progs {
                    match got {
                        // a map length that is not a multiple of the descriptor size may be refused (C18 decides that rule)
                        Out::Panic if (size as usize - 16) % 48 != 0 => ctx.class("derived:efi-refused"),
                        Out::Panic => ctx.violation("c05/derived/efi/spurious-panic", || format!("{} panicked on an EFI map of size {} ({} descriptors of 48 bytes)", label, size, n)),
                        Out::Val(got) => {
                            if label == "rev-count" {
                                ctx.ob("efi.count", got[0] as u64);
                                if got[0] != n as i64 {
                                    ctx.violation("c05/derived/efi/count", || format!("count() = {} on an EFI map of size {}: ({} - 16) / 48 = {}", got[0], size, size, n));
                                }
                                continue;
                            }
                            for g in &got {
                                ctx.ob("efi.item", *g as u64);
                            }
                            let wantv: Vec<i64> = want.iter().map(|i| 16 + 48 * *i as i64).collect();
                            if let Some(bad) = got.iter().find(|&&o| o < 16 || o + 48 > size as i64) {
                                ctx.violation("c05/derived/efi/beyond-size", || format!("{} on an EFI map of declared size {} ({} descriptors) handed out the bytes [{}, {}) of the tag; the map is [16, {})", label, size, n, bad, bad + 48, size));
                            } else if got != wantv {
                                ctx.violation("c05/derived/efi/items", || format!("{} on an EFI map of size {}: descriptors at offsets {:?}, expected {:?}", label, size, got, wantv));
                            }
                        }
                    }
                }
                ctx.class("derived:efi");
            });
        }
    }
    // ---------- ELF section headers
    for n in 0..=nmax.min(3) {
        for spare_i in -24i64..24 {
            for shndx in 0..=(n + 1) as u32 {
              // which headers are in use (bit k set = header k has type 1, else type 0 = unused)
              for used in 0..(1u32 << n) {
                let covered = spare_i >= 0;
                let spare = spare_i.max(0) as usize;
                if (spare_i % 4 != 0 || !covered) && used != (1u32 << n) - 1 {
                    continue;
                }
                if !covered && (n == 0 || shndx as usize >= n) {
                    continue;
                }
                let size = 20 + 64 * n + spare;
                let mut tut = vec![0u8; size];
                wr32(&mut tut, 0, bi::ELF);
                wr32(&mut tut, 4, size as u32);
                wr32(&mut tut, 8, n as u32);
                wr32(&mut tut, 12, 64);
                wr32(&mut tut, 16, shndx);
                for k in 0..n {
                    let o = 20 + 64 * k;
                    wr32(&mut tut, o, 0);
                    wr32(&mut tut, o + 4, if used >> k & 1 == 1 || k as u32 == shndx { 1 } else { 0 });
                    wr64(&mut tut, o + 16, INSIDE.as_ptr() as u64);
                    wr64(&mut tut, o + 32, 8);
                }
                for i in 20 + 64 * n..size {
                    tut[i] = 0;
                }
                // declared size short of the stored section count by 1..=24 bytes: the last header reaches into what follows
                let size = if covered { size } else { (size as i64 + spare_i) as usize };
                tut.truncate(size);
                wr32(&mut tut, 4, size as u32);
                // follower: every 8-byte slot holds the address of the planted string
                let mut payload = vec![];
                for _ in 0..12 {
                    payload.extend_from_slice(&(PLANTED.as_ptr() as u64).to_le_bytes());
                }
                let follower = bi::tag(0x4242, &payload);
                let planted_pad = |_t: usize, _k: usize| 0u8;
                let region = bi::region(&[tut.clone(), follower, bi::end_tag()], &planted_pad);
                let describe = || J::obj().set("part", "derived/elf").set("in_use_mask", used).set("sections", n).set("spare_bytes", spare_i).set("shndx", shndx).set("declared_size", size).set("note", "section addr fields hold run-time addresses of static strings").set("region", J::hex(&region));
                ctx.leaf(describe, |ctx| {
                    ctx.state_direct();
                    ctx.nontrivial();
                    arena.fill(arena::FILL_B);
                    let p = arena.place_right(&region);
                    let r = ctx.call("load", || unsafe { BootInformation::load(p as *const BootInformationHeader) });
                    let Out::Val(Ok(b)) = r else {
                        ctx.violation("c05/region-load", || "load failed on a well-formed region".into());
                        return;
                    };
                    let Out::Val(Some(tag)) = ctx.call("elf_sections_tag", || b.elf_sections_tag()) else {
                        ctx.violation("c05/getter-none/ElfSections", || "elf_sections_tag() returned nothing".into());
                        return;
                    };
                    let inside_ok = (shndx as usize) < n;
                    let reaches_out = (shndx as usize + 1) * 64 > size - 20;
                    // the deprecated getter on the boot information is a second way to the same iterator
                    #[allow(deprecated)]
                    let rd = ctx.call("elf_sections(deprecated)+name", || b.elf_sections().map(|it| it.map(|s| (rel(&s, p), s.name().map(|x| x.to_string()))).collect::<Vec<_>>()));
                    if !covered {
                        let r = ctx.call("sections", || tag.sections().map(|s| rel(&s, p)).count());
                        for (label, refused) in [("elf_sections_tag().sections()", r.is_panic()), ("the deprecated elf_sections()", rd.is_panic())] {
                            if !refused {
                                ctx.violation("c05/derived/elf/short-tag-accepted", || format!("{} handed out sections of a tag of declared size {} that stores a count of {} headers of 64 bytes ({} bytes short): the last header lies beyond the declared size", label, size, n, -spare_i));
                            }
                        }
                        ctx.class("derived:elf-short");
                        return;
                    }
                    let r = ctx.call("sections+name", || tag.sections().map(|s| s.name().map(|x| x.to_string())).collect::<Vec<_>>());
                    match (&rd, &r) {
                        (Out::Val(Some(a)), Out::Val(b2)) => {
                            let an: Vec<_> = a.iter().map(|x| x.1.clone()).collect();
                            if &an != b2 {
                                ctx.violation("c05/derived/elf/deprecated-getter-differs", || format!("the deprecated elf_sections() yields {:?}, elf_sections_tag().sections() yields {:?}", an, b2));
                            }
                        }
                        (Out::Val(None), _) => ctx.violation("c05/getter-none/ElfSections", || "elf_sections() returned nothing".into()),
                        (Out::Panic, Out::Val(_)) if inside_ok => ctx.violation("c05/derived/elf/spurious-panic", || format!("the deprecated elf_sections() panicked: {} sections, string-table index {}", n, shndx)),
                        (Out::Val(Some(a)), Out::Panic) if !a.is_empty() => ctx.violation("c05/derived/elf/deprecated-getter-differs", || format!("the deprecated elf_sections() yields {:?} where sections() + name() is refused", a)),
                        _ => {}
                    }
                    match r {
                        Out::Panic => {
                            ctx.ob("elf.name.panic", 1);
                            if inside_ok {
                                ctx.violation("c05/derived/elf/spurious-panic", || format!("name() panicked: {} sections, string-table index {}", n, shndx));
                            } else {
                                ctx.class("derived:elf-refused");
                            }
                        }
                        Out::Val(names) => {
                            ctx.ob("elf.names", names.len() as u64);
                            let n_used = (0..n).filter(|&k| used >> k & 1 == 1 || k as u32 == shndx).count();
                            if names.len() != n_used {
                                ctx.violation("c05/derived/elf/count", || format!("{} sections yielded, {} in-use headers (of {}) stored in a tag of size {} followed by a tag whose words would decode as further headers", names.len(), n_used, n, size));
                            }
                            for nm in &names {
                                let txt = nm.as_ref().map(|s| s.as_str()).unwrap_or("<utf8 error>");
                                ctx.ob_str("elf.name", txt);
                                if inside_ok {
                                    if txt != "inside" {
                                        ctx.violation("c05/derived/elf/name", || format!("name() = {:?}, the string table (entry {}) gives \"inside\"", txt, shndx));
                                    }
                                } else if reaches_out && n > 0 {
                                    ctx.violation("c05/derived/elf/name-beyond-size", || format!("name() = {:?} with string-table index {} on a tag of size {} holding {} headers + {} spare bytes: the string-table header [{}, {}) lies beyond the declared size", txt, shndx, size, n, spare, 20 + 64 * shndx as usize, 84 + 64 * shndx as usize));
                                }
                            }
                            ctx.class(if n == 0 { "derived:elf-empty" } else { "derived:elf-named" });
                        }
                    }
                });
              }
            }
        }
    }
}

fn run(ctx: &mut Ctx) {
    let arena = Arena::new(2);
    let extra = if ctx.quick() { 17 } else { 137 };
    ctx.bound("sizes", format!("per DST kind: declared size 0..=FIXED+4*ELEM+{} + EDGE32; framebuffer additionally stored palette count 0..=5 and a text-mode variant; string kinds additionally with the terminator only in the padding, a letter as first padding byte, and a quoted NUL-terminated text; the array / blob kinds additionally with all-zero content; tag-level seam (ref_from_slice + cast on a slice flush against a guard page, fills A/B) and region-level seam ([filler][tag][filler][end] through load + typed getter) with three different marker patterns in padding and neighbours", extra));
    for kind in KINDS.iter() {
        let top = kind.fixed + 4 * kind.elem + extra;
        let mut szs: Vec<u32> = (0..=top as u32).collect();
        szs.extend(EDGE32.iter().copied().filter(|&e| e as usize > top));
        // string kinds: variant 1 = letters without NUL in the declared part, zero bytes after it (a terminator that
        // exists only in the padding)
        let fbvars: Vec<u8> = if kind.name == "Framebuffer" { vec![0xFF, 0, 1, 2, 3, 5] } else if matches!(kind.name, "Cmdline" | "BootLoaderName" | "Module") { vec![0, 1, 2, 3] } else { vec![0, 9] };
        for &size in &szs {
            for &fbvar in &fbvars {
                // ---------- tag-level
                let present = if (size as usize) <= top { round8(size as usize).max(8) - 8 } else { round8(top) - 8 };
                let mut img = image(kind, size, present, fbvar);
                if fbvar >= 1 && matches!(kind.name, "Cmdline" | "BootLoaderName" | "Module") {
                    // variant 2: the first padding byte is a letter, the rest zero
                    for i in kind.fixed..img.len() {
                        img[i] = if i < size as usize { b'a' + (i % 26) as u8 } else if fbvar == 2 && i == size as usize { b'X' } else { 0 };
                    }
                    // variant 3: a NUL-terminated text enclosed in double quotes (the text starts at the fixed offset
                    // whatever its first byte is)
                    let sz = size as usize;
                    if fbvar == 3 && sz >= kind.fixed + 3 && sz <= img.len() {
                        img[kind.fixed] = b'"';
                        img[sz - 2] = b'"';
                        img[sz - 1] = 0;
                    }
                }
                let describe = || J::obj().set("seam", "tag").set("kind", kind.name).set("declared_size", size).set("stored_palette_count", if fbvar == 0xFF { J::Null } else { J::from(fbvar) }).set("slice", J::hex(&img));
                ctx.leaf(describe, |ctx| {
                    ctx.state_direct();
                    ctx.nontrivial();
                    ctx.under_fills(&format!("c05/o5/{}", kind.name), |ctx, fill| {
                        arena.fill(fill);
                        let p = arena.place_right(&img);
                        let slice: &[u8] = unsafe { std::slice::from_raw_parts(p, img.len()) };
                        let g = ctx.call("ref_from_slice", || Generic::ref_from_slice(slice));
                        match g {
                            Out::Panic => {
                                ctx.ob("tag.rfs.panic", 1);
                                if size >= 8 {
                                    ctx.violation(&format!("c05/rfs-panic/{}", kind.name), || format!("ref_from_slice panicked for size {}", size));
                                } else {
                                    ctx.class("view:refused");
                                }
                            }
                            Out::Val(Err(_)) => {
                                ctx.ob("tag.rfs.err", 1);
                                if size as usize > img.len() {
                                    ctx.class("view:refused");
                                } else {
                                    ctx.violation(&format!("c05/rfs-error/{}", kind.name), || format!("ref_from_slice refused size {} on a slice of {} bytes", size, img.len()));
                                }
                            }
                            Out::Val(Ok(g)) => {
                                let r = ctx.call("cast+accessors", || view_of(kind, g, fbvar));
                                check_view(ctx, kind, size as usize, fbvar, r, "tag");
                            }
                        }
                    });
                });
                // ---------- region-level (only sizes that fit the region; the generic kind has no getter)
                if kind.name == "Generic" || kind.name == "GenericEnd" || size as usize > top || size < 8 {
                    continue;
                }
                let filler1 = bi::tag(0x77, &[0xC1, 0xC2, 0xC3, 0xC4, 0xC5]);
                let filler2 = bi::tag(0x78, &[0xE1, 0xE2, 0xE3, 0xE4]);
                let tut = image(kind, size, size as usize - 8, fbvar);
                let region = bi::region(&[filler1, tut, filler2, bi::end_tag()], &bi::marker_pad);
                let describe = || J::obj().set("seam", "region").set("kind", kind.name).set("declared_size", size).set("stored_palette_count", if fbvar == 0xFF { J::Null } else { J::from(fbvar) }).set("region", J::hex(&region));
                ctx.leaf(describe, |ctx| {
                    ctx.state_direct();
                    ctx.nontrivial();
                    arena.fill(arena::FILL_A);
                    let p = arena.place_right(&region);
                    let r = ctx.call("load", || unsafe { BootInformation::load(p as *const BootInformationHeader) });
                    let Out::Val(Ok(bi)) = r else {
                        ctx.violation("c05/region-load", || "load failed on a well-formed region".into());
                        return;
                    };
                    let r = ctx.call("getter+accessors", || getter_view(kind, &bi, p, fbvar));
                    match r {
                        Out::Val(None) => ctx.violation(&format!("c05/getter-none/{}", kind.name), || format!("getter returned nothing for a {} tag of size {}", kind.name, size)),
                        Out::Val(Some((off, v))) => {
                            if off != 8 + 16 {
                                ctx.violation(&format!("c05/getter-wrong-tag/{}", kind.name), || format!("getter returned a reference at region offset {}, the tag is at 24", off));
                            }
                            check_view(ctx, kind, size as usize, fbvar, Out::Val(v), "region");
                        }
                        Out::Panic => check_view(ctx, kind, size as usize, fbvar, Out::Panic, "region"),
                    }
                });
            }
        }
    }
    // ---------- header crate: information request tag
    ctx.bound("information_request", format!("InformationRequestHeaderTag: declared size 0..={} + EDGE32, tag-level (ref_from_slice + cast) and through Multiboot2Header::load + information_request_tag()", 8 + 16 + extra));
    let top = 8 + 16 + extra;
    let mut szs: Vec<u32> = (0..=top as u32).collect();
    szs.extend(EDGE32.iter().copied().filter(|&e| e as usize > top));
    // (second pass: all request words zero - the id of the end tag -, so that a "filler" is indistinguishable from
    // a request)
    for (&size, zero_content) in szs.iter().flat_map(|s| [(s, false), (s, true)]) {
        let present = if (size as usize) <= top { round8(size as usize).max(8) - 8 } else { round8(top) - 8 };
        let mut img = vec![0u8; 8 + present];
        for i in 8..img.len() {
            img[i] = if zero_content { 0 } else { marker(i, 6) };
        }
        wr16(&mut img, 0, 1);
        wr16(&mut img, 2, 1);
        wr32(&mut img, 4, size);
        let kind = Kind { name: "InformationRequest", typ: 1, fixed: 8, elem: 4 };
        let describe = || J::obj().set("seam", "tag").set("kind", "InformationRequest(header crate)").set("declared_size", size).set("zero_requests", zero_content).set("slice", J::hex(&img));
        ctx.leaf(describe, |ctx| {
            ctx.state_direct();
            ctx.nontrivial();
            ctx.under_fills("c05/o5/InformationRequest", |ctx, fill| {
                arena.fill(fill);
                let p = arena.place_right(&img);
                let slice: &[u8] = unsafe { std::slice::from_raw_parts(p, img.len()) };
                let g = ctx.call("ref_from_slice", || DynSizedStructure::<HeaderTagHeader>::ref_from_slice(slice));
                match g {
                    Out::Panic | Out::Val(Err(_)) => {
                        ctx.ob("ir.rfs.refused", 1);
                        if size >= 8 && size as usize <= img.len() {
                            ctx.violation("c05/rfs-refused/InformationRequest", || format!("ref_from_slice refused size {} on a slice of {} bytes", size, img.len()));
                        } else {
                            ctx.class("view:refused");
                        }
                    }
                    Out::Val(Ok(g)) => {
                        let r = ctx.call("cast+requests", || {
                            let base = g as *const _ as *const u8;
                            let t = g.cast::<InformationRequestHeaderTag>();
                            View { meta: ptr_meta::metadata(t as *const InformationRequestHeaderTag), sov: std::mem::size_of_val(t), addr_off: rel(t, base), slices: vec![sl("requests", t.requests(), base)] }
                        });
                        check_view(ctx, &kind, size as usize, 0, r, "tag");
                    }
                }
            });
        });
        if size as usize > top || size < 8 {
            continue;
        }
        // through a loaded header: [basic header][info request][end tag]
        let mut hdr = vec![0u8; 16];
        let mut tut = img[..size as usize].to_vec();
        while tut.len() % 8 != 0 {
            tut.push(0xF9);
        }
        hdr.extend_from_slice(&tut);
        hdr.extend_from_slice(&[0, 0, 0, 0, 8, 0, 0, 0]);
        let len = hdr.len() as u32;
        wr32(&mut hdr, 0, 0xE852_50D6);
        wr32(&mut hdr, 4, 0);
        wr32(&mut hdr, 8, len);
        wr32(&mut hdr, 12, 0u32.wrapping_sub(0xE852_50D6).wrapping_sub(len));
        let describe = || J::obj().set("seam", "header").set("kind", "InformationRequest(header crate)").set("declared_size", size).set("header", J::hex(&hdr));
        ctx.leaf(describe, |ctx| {
            ctx.state_direct();
            ctx.nontrivial();
            arena.fill(arena::FILL_B);
            let p = arena.place_right(&hdr);
            let r = ctx.call("Multiboot2Header::load", || unsafe { Multiboot2Header::load(p as *const Multiboot2BasicHeader) });
            let Out::Val(Ok(h)) = r else {
                ctx.violation("c05/header-load", || "Multiboot2Header::load failed on a well-formed header".into());
                return;
            };
            let r = ctx.call("information_request_tag+requests", || {
                h.information_request_tag().map(|t| {
                    let base = t as *const _ as *const u8;
                    (rel(t, p), View { meta: ptr_meta::metadata(t as *const InformationRequestHeaderTag), sov: std::mem::size_of_val(t), addr_off: 0, slices: vec![sl("requests", t.requests(), base)] })
                })
            });
            match r {
                Out::Val(None) => ctx.violation("c05/getter-none/InformationRequest", || "information_request_tag() returned nothing".into()),
                Out::Val(Some((off, v))) => {
                    if off != 16 {
                        ctx.violation("c05/getter-wrong-tag/InformationRequest", || format!("reference at header offset {}", off));
                    }
                    check_view(ctx, &kind, size as usize, 0, Out::Val(v), "header");
                }
                Out::Panic => check_view(ctx, &kind, size as usize, 0, Out::Panic, "header"),
            }
        });
    }
    derived(ctx, &arena);
    let huge_pal = Arena::new(52);
    // equality of two typed views: decided by the declared bytes only, never by the alignment padding
    ctx.bound("ordering_and_hash", "the DST kinds that implement Ord and Hash (command line, loader name, module, SMBIOS, EFI map; the header crate's information request): on the same pairs of images as the equality part, ==, cmp (both directions), partial_cmp and hash must agree with one another and with the declared bytes");
    ctx.bound("equality", "the DST kinds that implement PartialEq (command line, loader name, module, memory map, SMBIOS, ELF sections, EFI map, framebuffer): for every declared size FIXED..=FIXED+3*ELEM+9 that the kind accepts, two images with equal declared bytes and different padding must compare equal, and two images that differ in the last declared byte must compare unequal");
    {
        let second = Arena::new(2);
        macro_rules! eq_kind {
            ($kname:expr, $t:ty) => {{
                let kind = KINDS.iter().find(|k| k.name == $kname).unwrap();
                for size in kind.fixed..=kind.fixed + 3 * kind.elem + 9 {
                    if (size - kind.fixed) % kind.elem != 0 {
                        continue;
                    }
                    let fbvar = 0xFFu8;
                    let a = image(kind, size as u32, round8(size) - 8, fbvar);
                    for variant in 0..2 {
                        // variant 0: same declared bytes, other padding; variant 1: last declared byte differs
                        let mut b = a.clone();
                        if variant == 0 {
                            if round8(size) == size {
                                continue;
                            }
                            for i in size..b.len() {
                                b[i] = !a[i] | 1;
                            }
                        } else {
                            if size == kind.fixed {
                                continue;
                            }
                            b[size - 1] ^= 0x40;
                        }
                        let describe = || J::obj().set("part", "equality").set("kind", kind.name).set("declared_size", size).set("second_image", ["same declared bytes, different padding", "last declared byte differs"][variant]).set("a", J::hex(&a)).set("b", J::hex(&b));
                        ctx.leaf(describe, |ctx| {
                            ctx.state_direct();
                            ctx.nontrivial();
                            arena.fill(arena::FILL_A);
                            second.fill(arena::FILL_B);
                            let pa = arena.place_right(&a);
                            let pb = second.place_right(&b);
                            let sa: &[u8] = unsafe { std::slice::from_raw_parts(pa, a.len()) };
                            let sb: &[u8] = unsafe { std::slice::from_raw_parts(pb, b.len()) };
                            let r = ctx.call("cast + ==", || {
                                let ta = Generic::ref_from_slice(sa).unwrap().cast::<$t>();
                                let tb = Generic::ref_from_slice(sb).unwrap().cast::<$t>();
                                (ta == tb, tb == ta, ta == ta)
                            });
                            match r {
                                Out::Panic => ctx.class("equality:refused"),
                                Out::Val((ab, ba, aa)) => {
                                    ctx.ob("eq", ab as u64);
                                    let want = variant == 0;
                                    if ab != want || ba != want || !aa {
                                        ctx.violation(&format!("c05/equality/{}", kind.name), || format!("{} tags of size {}, {}: a == b is {}, b == a is {}, a == a is {}", kind.name, size, ["equal declared bytes and different padding", "different last declared byte"][variant], ab, ba, aa));
                                    } else {
                                        ctx.class("equality:ok");
                                    }
                                }
                            }
                        });
                    }
                }
            }};
        }
        // the kinds that also implement Ord and Hash: both must agree with == (same verdict on the same two images)
        macro_rules! ord_kind {
            ($kname:expr, $hdr:ty, $t:ty, $typ:expr, $fixed:expr, $elem:expr, $sixteen:expr) => {{
                for size in $fixed..=$fixed + 3 * $elem + 9usize {
                    if (size - $fixed) % $elem != 0 {
                        continue;
                    }
                    let mut a = vec![0u8; round8(size)];
                    for i in 8..a.len() {
                        a[i] = marker(i, 4);
                    }
                    if $sixteen {
                        wr16(&mut a, 0, $typ as u16);
                        wr16(&mut a, 2, 1);
                    } else {
                        wr32(&mut a, 0, $typ as u32);
                    }
                    wr32(&mut a, 4, size as u32);
                    if $kname == "EfiMmap" {
                        wr32(&mut a, 8, 48);
                        wr32(&mut a, 12, 1);
                    }
                    for variant in 0..2 {
                        let mut b = a.clone();
                        if variant == 0 {
                            if round8(size) == size {
                                continue;
                            }
                            for i in size..b.len() {
                                b[i] = !a[i] | 1;
                            }
                        } else {
                            if size == $fixed {
                                continue;
                            }
                            b[size - 1] ^= 0x40;
                        }
                        let describe = || J::obj().set("part", "ordering_and_hash").set("kind", $kname).set("declared_size", size).set("second_image", ["same declared bytes, different padding", "last declared byte differs"][variant]).set("a", J::hex(&a)).set("b", J::hex(&b));
                        ctx.leaf(describe, |ctx| {
                            ctx.state_direct();
                            ctx.nontrivial();
                            arena.fill(arena::FILL_A);
                            second.fill(arena::FILL_B);
                            let pa = arena.place_right(&a);
                            let pb = second.place_right(&b);
                            let sa: &[u8] = unsafe { std::slice::from_raw_parts(pa, a.len()) };
                            let sb: &[u8] = unsafe { std::slice::from_raw_parts(pb, b.len()) };
                            let r = ctx.call("cast + cmp + hash", || {
                                use std::hash::{Hash, Hasher};
                                let ta = DynSizedStructure::<$hdr>::ref_from_slice(sa).unwrap().cast::<$t>();
                                let tb = DynSizedStructure::<$hdr>::ref_from_slice(sb).unwrap().cast::<$t>();
                                let h = |t: &$t| { let mut s = std::collections::hash_map::DefaultHasher::new(); t.hash(&mut s); s.finish() };
                                (ta == tb, ta.cmp(tb), tb.cmp(ta), ta.partial_cmp(tb), h(ta) == h(tb))
                            });
                            match r {
                                Out::Panic => ctx.class("ordering:refused"),
                                Out::Val((eq, ab, ba, pab, heq)) => {
                                    ctx.ob("ord.eq", eq as u64);
                                    let want_eq = variant == 0;
                                    let consistent = eq == want_eq && (ab == std::cmp::Ordering::Equal) == want_eq && ab == ba.reverse() && pab == Some(ab) && (!want_eq || heq);
                                    if !consistent {
                                        ctx.violation(&format!("c05/ordering-hash/{}", $kname), || format!("{} tags of size {}, {}: == {}, cmp {:?} / reversed {:?}, partial_cmp {:?}, hashes equal {}: equality, ordering and hashing must agree and look at the declared bytes only", $kname, size, ["equal declared bytes and different padding", "different last declared byte"][variant], eq, ab, ba, pab, heq));
                                    } else {
                                        ctx.class("ordering:ok");
                                    }
                                }
                            }
                        });
                    }
                }
            }};
        }
        ord_kind!("Cmdline", TagHeader, CommandLineTag, bi::CMDLINE, 8usize, 1usize, false);
        ord_kind!("BootLoaderName", TagHeader, BootLoaderNameTag, bi::BOOTLOADER, 8usize, 1usize, false);
        ord_kind!("Module", TagHeader, ModuleTag, bi::MODULE, 16usize, 1usize, false);
        ord_kind!("Smbios", TagHeader, SmbiosTag, bi::SMBIOS, 16usize, 1usize, false);
        ord_kind!("EfiMmap", TagHeader, EFIMemoryMapTag, bi::EFI_MMAP, 16usize, 1usize, false);
        ord_kind!("InformationRequest", HeaderTagHeader, InformationRequestHeaderTag, 1u32, 8usize, 4usize, true);
        eq_kind!("Cmdline", CommandLineTag);
        eq_kind!("BootLoaderName", BootLoaderNameTag);
        eq_kind!("Module", ModuleTag);
        eq_kind!("Mmap", MemoryMapTag);
        eq_kind!("Smbios", SmbiosTag);
        eq_kind!("ElfSections", ElfSectionsTag);
        eq_kind!("EfiMmap", EFIMemoryMapTag);
        eq_kind!("Framebuffer", FramebufferTag);
    }
    // indexed framebuffer: stored colour counts whose byte length crosses 8-, 16- and 17-bit boundaries, on small tags
    ctx.bound("palette_counts", "indexed framebuffer tags of size 34..=64 and 802, 65570, 65572, 131107, 196639 (the last three hold exactly 21846, 43691 and 65535 colours) x bits-per-pixel byte in {marker, marker with an all-zero palette, 0, 1, 2, 3, 4, 8, 15, 16, 24, 32, 255} x stored colour count in {0..=12, 16, 17, 85, 86, 255, 256, 257, 21845, 21846, 21847, 32768, 43690, 43691, 43692, 65534, 65535}: the palette is handed out only when 34 + 3 x count fits the declared size, at offset 34 with 3 x count bytes");
    for size in (34usize..=64).chain([802, 65570, 65572, 131107, 196639]) {
        for count in (0u16..=12).chain([16, 17, 85, 86, 255, 256, 257, 21845, 21846, 21847, 32768, 43690, 43691, 43692, 65534, 65535]) {
          // the bits-per-pixel byte: a marker value, and the depths for which 2^bpp lies below / at / above the count
          // (-2: marker bits-per-pixel byte and an all-zero palette - the colour count is then followed by zero bytes, so
          // that the count also reads as a 32-bit number)
          for bpp in [-1i32, -2, 0, 1, 2, 3, 4, 8, 15, 16, 24, 32, 255] {
            if bpp >= 0 && size > 64 {
                continue;
            }
            let mut img = vec![0u8; round8(size)];
            for i in 8..img.len() {
                img[i] = if bpp == -2 && i >= 34 { 0 } else { marker(i, 4) };
            }
            wr32(&mut img, 0, bi::FRAMEBUFFER);
            wr32(&mut img, 4, size as u32);
            if bpp >= 0 {
                img[28] = bpp as u8;
            }
            img[29] = 0;
            wr16(&mut img, 32, count);
            let describe = || J::obj().set("part", "palette_counts").set("declared_size", size).set("stored_palette_count", count).set("bpp_byte", bpp);
            ctx.leaf(describe, |ctx| {
                ctx.state_direct();
                ctx.nontrivial();
                ctx.under_fills("c05/o5/palette", |ctx, fill| {
                    huge_pal.fill(fill);
                    let p = huge_pal.place_right(&img);
                    let slice: &[u8] = unsafe { std::slice::from_raw_parts(p, img.len()) };
                    let g = Generic::ref_from_slice(slice).unwrap();
                    let r = ctx.call("cast+buffer_type", || {
                        let t = g.cast::<FramebufferTag>();
                        match t.buffer_type() {
                            Ok(FramebufferType::Indexed { palette }) => Some((rel(palette, p), std::mem::size_of_val(palette))),
                            _ => None,
                        }
                    });
                    let fits = 34 + 3 * count as usize <= size;
                    match r {
                        Out::Panic => {
                            ctx.ob("pal.panic", 1);
                            if fits {
                                ctx.violation("c05/palette/spurious-panic", || format!("framebuffer tag of size {} with {} colours: buffer_type() panicked although 34 + 3 x {} fits", size, count, count));
                            } else {
                                ctx.class("palette:refused");
                            }
                        }
                        Out::Val(None) => ctx.violation("c05/palette/not-indexed", || "an indexed framebuffer tag was not decoded as indexed".into()),
                        Out::Val(Some((off, len))) => {
                            ctx.ob("pal.off", off as u64);
                            ctx.ob("pal.len", len as u64);
                            if !fits {
                                ctx.violation("c05/palette-beyond-tag/counts", || format!("framebuffer tag of size {} stores {} colours: palette [{}, {}) handed out, the tag ends at {}", size, count, off, off + len as i64, size));
                            } else if off != 34 || len != 3 * count as usize {
                                ctx.violation("c05/palette-extent/counts", || format!("palette at offset {} length {}, expected offset 34 length {}", off, len, 3 * count as usize));
                            } else {
                                ctx.class("palette:ok");
                            }
                        }
                    }
                });
            });
          }
        }
    }
    // memory map: the entries are handed out only when the entry size is the specified 24, whatever the version says
    ctx.bound("mmap_entry_size", "memory-map tags with entry_size in {0, 8, 16, 23, 24, 25, 32, 40, 48, 72, 96} x entry_version in {0, 1, 2, 0xFFFFFFFF} x payload lengths 0, 8, .., 144: memory_areas() is refused (controlled panic) unless entry_size is 24, and then hands out payload / 24 areas at 16 + 24 i inside the declared size");
    for es in [0u32, 8, 16, 23, 24, 25, 32, 40, 48, 72, 96] {
        for ver in [0u32, 1, 2, 0xFFFF_FFFF] {
            for pl in (0..=144usize).step_by(8) {
                let size = 16 + pl;
                let mut img = vec![0u8; round8(size)];
                for i in 8..img.len() {
                    img[i] = marker(i, 4);
                }
                wr32(&mut img, 0, bi::MMAP);
                wr32(&mut img, 4, size as u32);
                wr32(&mut img, 8, es);
                wr32(&mut img, 12, ver);
                let describe = || J::obj().set("part", "mmap_entry_size").set("entry_size", es).set("entry_version", ver).set("payload_len", pl);
                ctx.leaf(describe, |ctx| {
                    ctx.state_direct();
                    ctx.nontrivial();
                    ctx.under_fills("c05/o5/mmap", |ctx, fill| {
                        huge_pal.fill(fill);
                        let p = huge_pal.place_right(&img);
                        let slice: &[u8] = unsafe { std::slice::from_raw_parts(p, img.len()) };
                        let g = Generic::ref_from_slice(slice).unwrap();
                        let r = ctx.call("cast+memory_areas", || {
                            let t = g.cast::<multiboot2::MemoryMapTag>();
                            let a = t.memory_areas();
                            (rel(a, p), a.len())
                        });
                        match r {
                            Out::Panic => {
                                ctx.ob("mmap.panic", 1);
                                if es == 24 && pl % 24 == 0 {
                                    ctx.violation("c05/mmap/spurious-panic", || format!("memory_areas() panicked on a map of {} bytes with entry size 24, version {}", pl, ver));
                                } else {
                                    ctx.class("mmap:refused");
                                }
                            }
                            Out::Val((off, n)) => {
                                ctx.ob("mmap.n", n as u64);
                                if es != 24 || pl % 24 != 0 {
                                    ctx.violation("c05/mmap/entry-size-accepted", || format!("memory_areas() handed out {} areas at offset {} for entry_size {}, version {}, payload {}: the entry size is not the specified 24 (or the payload not a multiple of it)", n, off, es, ver, pl));
                                } else if off != 16 || n != pl / 24 {
                                    ctx.violation("c05/mmap/extent", || format!("memory_areas() = {} areas at offset {}, expected {} at 16", n, off, pl / 24));
                                } else {
                                    ctx.class("mmap:ok");
                                }
                            }
                        }
                    });
                });
            }
        }
    }
    // large declared sizes: element counts on both sides of 2^12, 2^16 and 2^20
    ctx.bound("large_sizes", "per DST kind: declared sizes B-1, B, B+1 and the nearest sizes FIXED + k*ELEM below and above B, for B in {4096, 65536, 2^20} (quick: without 2^20); tag-level seam, tag physically present and flush against a guard page");
    let huge = Arena::new(270);
    for kind in KINDS.iter() {
        for b in [4096usize, 65536, 1 << 20] {
            if b > 65536 && ctx.quick() {
                continue;
            }
            let k = (b - kind.fixed) / kind.elem;
            let mut szs = vec![b - 1, b, b + 1, kind.fixed + k * kind.elem, kind.fixed + (k + 1) * kind.elem, kind.fixed + (k - 1) * kind.elem];
            szs.sort_unstable();
            szs.dedup();
            for size in szs {
                let fbvar = 0xFFu8;
                let img = image(kind, size as u32, round8(size) - 8, fbvar);
                let describe = || J::obj().set("seam", "tag-large").set("kind", kind.name).set("declared_size", size);
                ctx.leaf(describe, |ctx| {
                    ctx.state_direct();
                    ctx.nontrivial();
                    huge.fill(arena::FILL_A);
                    let p = huge.place_right(&img);
                    let slice: &[u8] = unsafe { std::slice::from_raw_parts(p, img.len()) };
                    match ctx.call("ref_from_slice", || Generic::ref_from_slice(slice)) {
                        Out::Val(Ok(g)) => {
                            let r = ctx.call("cast+accessors", || view_of(kind, g, fbvar));
                            check_view(ctx, kind, size, fbvar, r, "tag-large");
                        }
                        _ => ctx.violation(&format!("c05/rfs-error/{}", kind.name), || format!("ref_from_slice refused size {} on a slice of {} bytes", size, img.len())),
                    }
                });
            }
        }
    }
}

fn main() {
    main_wrap("C05", run);
}
