//! C17 - string tags round-trip text and apply the NUL / UTF-8 rules within
//! the tag's declared size.
use mbvlib::spec::bi;
use mbvlib::spec::*;
use mbvlib::*;
use multiboot2::{
    BootInformation, BootInformationHeader, BootLoaderNameTag, CommandLineTag, DynSizedStructure, ModuleTag,
    StringError, TagHeader,
};

// exact-alignment, poisoning allocator (engine/checks/src/lib.rs)
#[global_allocator]
static A: ledger::Counting = ledger::Counting;

type Generic = DynSizedStructure<TagHeader>;

#[derive(Clone, Copy)]
struct Kind {
    name: &'static str,
    typ: u32,
    fixed: usize,
}
const KINDS: [Kind; 3] = [
    Kind { name: "Cmdline", typ: bi::CMDLINE, fixed: 8 },
    Kind { name: "BootLoaderName", typ: bi::BOOTLOADER, fixed: 8 },
    Kind { name: "Module", typ: bi::MODULE, fixed: 16 },
];

/// Reference: what parsing the declared content must give.
#[derive(Debug, PartialEq, Eq, Clone)]
enum Exp {
    Text(usize), // valid UTF-8 of that many bytes, starting at the fixed offset
    /// invalid UTF-8 before the first NUL: where the valid prefix ends and how long the offending sequence is (the
    /// value the error carries, as computed over the text bytes alone)
    Utf8(usize, Option<usize>),
    MissingNul,
}
fn expect(content: &[u8]) -> Exp {
    match content.iter().position(|&b| b == 0) {
        None => Exp::MissingNul,
        Some(i) => {
            match std::str::from_utf8(&content[..i]) {
                Ok(_) => Exp::Text(i),
                Err(e) => Exp::Utf8(e.valid_up_to(), e.error_len()),
            }
        }
    }
}

#[derive(Debug)]
enum Got {
    Text { off: i64, len: usize, hash: u64 },
    Utf8(usize, Option<usize>),
    MissingNul,
}
fn conv(r: Result<&str, StringError>, base: *const u8) -> Got {
    match r {
        Ok(s) => Got::Text { off: rel(s, base), len: s.len(), hash: hash::hash_bytes(s.as_bytes()) },
        Err(StringError::Utf8(e)) => Got::Utf8(e.valid_up_to(), e.error_len()),
        Err(StringError::MissingNul(_)) => Got::MissingNul,
    }
}

fn typed_text(kind: &Kind, g: &Generic) -> Got {
    let base = g as *const Generic as *const u8;
    match kind.typ {
        bi::CMDLINE => conv(g.cast::<CommandLineTag>().cmdline(), base),
        bi::BOOTLOADER => conv(g.cast::<BootLoaderNameTag>().name(), base),
        _ => conv(g.cast::<ModuleTag>().cmdline(), base),
    }
}

fn judge(ctx: &mut Ctx, kind: &Kind, content: &[u8], r: Out<Got>, seam: &'static str) {
    let exp = expect(content);
    match r {
        Out::Panic => {
            ctx.ob("str.panic", 1);
            ctx.violation(&format!("c17/parse/panic/{}/{}", kind.name, seam), || format!("reading the text of a {} tag with content {:02x?} panicked; expected {:?}", kind.name, content, exp));
        }
        Out::Val(g) => {
            match &g {
                Got::Text { off, len, hash } => {
                    ctx.ob("str.off", *off as u64);
                    ctx.ob("str.len", *len as u64);
                    ctx.ob("str.hash", *hash);
                }
                Got::Utf8(v, l) => ctx.ob("str.utf8err", 1 + *v as u64 * 8 + l.unwrap_or(7) as u64),
                Got::MissingNul => ctx.ob("str.nonul", 1),
            }
            let ok = match (&g, &exp) {
                (Got::Text { off, len, hash }, Exp::Text(n)) => *off == kind.fixed as i64 && len == n && *hash == hash::hash_bytes(&content[..*n]),
                (Got::Utf8(v, l), Exp::Utf8(ev, el)) => v == ev && l == el,
                (Got::MissingNul, Exp::MissingNul) => true,
                _ => false,
            };
            if ok {
                ctx.class(match exp {
                    Exp::Text(_) => "parse:text",
                    Exp::Utf8(..) => "parse:utf8-error",
                    Exp::MissingNul => "parse:missing-nul",
                });
            } else {
                let k = match (&g, &exp) {
                    (Got::Text { .. }, Exp::MissingNul) => "terminator-outside-declared-size",
                    (Got::Text { .. }, Exp::Text(_)) => "wrong-text",
                    (Got::Text { .. }, Exp::Utf8(..)) => "invalid-utf8-accepted",
                    (Got::Utf8(..), Exp::Utf8(..)) => "wrong-error-value",
                    (_, Exp::Text(_)) => "valid-text-refused",
                    _ => "wrong-error",
                };
                ctx.violation(&format!("c17/parse/{}/{}/{}", k, kind.name, seam), || format!("{} tag, declared content {:02x?}: got {:?}, expected {:?} (text starts at offset {})", kind.name, content, g, exp, kind.fixed));
            }
        }
    }
}

fn tag_image(kind: &Kind, content: &[u8]) -> Vec<u8> {
    if kind.typ == bi::MODULE {
        bi::enc_module(0x1000, 0x2fff, content)
    } else {
        bi::enc_string(kind.typ, content)
    }
}

fn parse_side(ctx: &mut Ctx, arena: &Arena) {
    const ALPHA: [u8; 6] = [0x61, 0x00, 0xC3, 0xA9, 0xE2, 0xFF];
    let maxlen = if ctx.dev_profile() { 5 } else if ctx.quick() { 6 } else { 7 };
    ctx.bound("parse", format!("all byte strings over {{61,00,C3,A9,E2,FF}} up to length {} as declared content of the three string kinds x padding {{zero, non-zero marker}}; tag level (flush against a guard page, bytes after the padded tag varied by fills A/B) and region level (successor = end tag, i.e. starts with 00, or a custom tag) through the typed getters", maxlen));
    for kind in KINDS.iter() {
        for len in 0..=maxlen {
            let total = 6usize.pow(len as u32);
            for code in 0..total {
                let mut content = Vec::with_capacity(len);
                let mut c = code;
                for _ in 0..len {
                    content.push(ALPHA[c % 6]);
                    c /= 6;
                }
                for pad_zero in [true, false] {
                    let img = tag_image(kind, &content);
                    let mut padded = img.clone();
                    let mut k = 0;
                    while padded.len() % 8 != 0 {
                        padded.push(if pad_zero { 0 } else { 0xF1 + k });
                        k += 1;
                    }
                    if padded.len() == img.len() && !pad_zero {
                        continue; // no padding: the two variants coincide
                    }
                    let describe = || J::obj().set("seam", "tag").set("kind", kind.name).set("content", J::hex(&content)).set("padding", if pad_zero { "zero" } else { "marker" }).set("slice", J::hex(&padded));
                    ctx.leaf(describe, |ctx| {
                        ctx.state_direct();
                        if content.contains(&0) || !content.is_empty() {
                            ctx.nontrivial();
                        }
                        ctx.under_fills(&format!("c17/o5/{}", kind.name), |ctx, fill| {
                            arena.fill(fill);
                            let p = arena.place_right(&padded);
                            let slice: &[u8] = unsafe { std::slice::from_raw_parts(p, padded.len()) };
                            let r = ctx.call("cast+text", || typed_text(kind, Generic::ref_from_slice(slice).unwrap()));
                            judge(ctx, kind, &content, r, "tag");
                        });
                    });
                    // region level
                    for succ_end in [true, false] {
                        let mut tags = vec![img.clone()];
                        if !succ_end {
                            tags.push(bi::tag(0x6161_6161, b"\x01\x02\x03"));
                        }
                        tags.push(bi::end_tag());
                        let region = bi::region(&tags, &|_, k| if pad_zero { 0 } else { 0xF1 + k as u8 });
                        let describe = || J::obj().set("seam", "region").set("kind", kind.name).set("content", J::hex(&content)).set("padding", if pad_zero { "zero" } else { "marker" }).set("successor", if succ_end { "end tag" } else { "custom tag" }).set("region", J::hex(&region));
                        ctx.leaf(describe, |ctx| {
                            ctx.state_direct();
                            ctx.nontrivial();
                            arena.fill(arena::FILL_A);
                            let p = arena.place_right(&region);
                            let Out::Val(Ok(bi)) = ctx.call("load", || unsafe { BootInformation::load(p as *const BootInformationHeader) }) else {
                                ctx.violation("c17/region-load", || "load failed on a well-formed region".into());
                                return;
                            };
                            let r = ctx.call("getter+text", || {
                                let tb = unsafe { p.add(8) };
                                match kind.typ {
                                    bi::CMDLINE => bi.command_line_tag().map(|t| conv(t.cmdline(), tb)),
                                    bi::BOOTLOADER => bi.boot_loader_name_tag().map(|t| conv(t.name(), tb)),
                                    _ => bi.module_tags().next().map(|t| conv(t.cmdline(), tb)),
                                }
                            });
                            match r {
                                Out::Val(None) => ctx.violation(&format!("c17/getter-none/{}", kind.name), || "typed getter returned nothing".into()),
                                Out::Val(Some(g)) => judge(ctx, kind, &content, Out::Val(g), "region"),
                                Out::Panic => judge(ctx, kind, &content, Out::Panic, "region"),
                            }
                        });
                    }
                }
            }
        }
    }
}

/// Long declared contents: every length 0..=80 and the counter boundaries, the first NUL at the start / middle /
/// last byte / absent, plain ASCII or with a multi-byte character or an invalid byte next to the terminator.
fn parse_long(ctx: &mut Ctx, small: &Arena, large: &Arena) {
    ctx.bound("parse_long", "declared contents of every length 0..=80 and 255..257, 1023..1025, 4095..4097, 65535..65537, 2^20 + 1, 2^24 - 1..2^24 + 1 (quick tier: 2^24 + 1 with the NUL as last byte only): first NUL at position {none, 0, len/2, len-2, len-1} x {ASCII, two-byte character right before the NUL, invalid byte before the NUL, invalid byte after the NUL, trailing space / newline before the NUL}; tag level, zero and marker padding");
    for kind in KINDS.iter() {
        for len in (0..=80usize).chain([255, 256, 257, 1023, 1024, 1025, 4095, 4096, 4097, 65535, 65536, 65537, (1 << 20) + 1, (1 << 24) - 1, 1 << 24, (1 << 24) + 1]) {
            // 16 MiB texts: the quick tier keeps one length and one shape only
            let huge_quick = len > (1 << 21) && ctx.quick();
            if huge_quick && len != (1 << 24) + 1 {
                continue;
            }
            let arena = if len > 5000 { large } else { small };
            let mut nulpos: Vec<Option<usize>> = vec![None];
            for p in [0usize, len / 2, len.saturating_sub(2), len.saturating_sub(1)] {
                if p < len && !nulpos.contains(&Some(p)) {
                    nulpos.push(Some(p));
                }
            }
            for np in nulpos {
                if huge_quick && np != Some(len - 1) {
                    continue;
                }
                for variant in 0..6 {
                    if huge_quick && variant != 0 {
                        continue;
                    }
                    let mut content: Vec<u8> = (0..len).map(|i| b'a' + (i % 26) as u8).collect();
                    if let Some(p) = np {
                        content[p] = 0;
                        match variant {
                            1 if p >= 2 => {
                                content[p - 2] = 0xC3;
                                content[p - 1] = 0xA9;
                            }
                            2 if p >= 1 => content[p - 1] = 0xFF,
                            3 if p + 1 < len => content[p + 1] = 0xFF,
                            4 if p >= 1 => content[p - 1] = b' ',
                            5 if p >= 1 => content[p - 1] = b'\n',
                            0 => {}
                            _ => continue,
                        }
                    } else if variant > 0 {
                        continue;
                    }
                    for pad_zero in [true, false] {
                        let img = tag_image(kind, &content);
                        let mut padded = img.clone();
                        let mut k = 0;
                        while padded.len() % 8 != 0 {
                            padded.push(if pad_zero { 0 } else { 0xF1 + k });
                            k += 1;
                        }
                        if padded.len() == img.len() && !pad_zero {
                            continue;
                        }
                        let describe = || J::obj().set("seam", "tag-long").set("kind", kind.name).set("content_len", len).set("first_nul", np.map(|p| J::from(p)).unwrap_or(J::Null)).set("variant", variant).set("padding", if pad_zero { "zero" } else { "marker" });
                        ctx.leaf(describe, |ctx| {
                            ctx.state_direct();
                            ctx.nontrivial();
                            ctx.under_fills(&format!("c17/o5/{}", kind.name), |ctx, fill| {
                                arena.fill(fill);
                                let p = arena.place_right(&padded);
                                let slice: &[u8] = unsafe { std::slice::from_raw_parts(p, padded.len()) };
                                let r = ctx.call("cast+text", || typed_text(kind, Generic::ref_from_slice(slice).unwrap()));
                                judge(ctx, kind, &content, r, "tag");
                            });
                        });
                    }
                }
            }
        }
    }
}

/// UTF-8 well-formedness classes: every lead-byte class boundary followed by 0..=3 bytes from the continuation-range
/// boundaries (overlong forms, surrogates, values above U+10FFFF, truncated and over-long sequences, stray
/// continuation bytes), inside an otherwise ASCII text.
fn utf8_classes(ctx: &mut Ctx, arena: &Arena) {
    const LEADS: [u8; 22] = [0x7F, 0x80, 0xBF, 0xC0, 0xC1, 0xC2, 0xDF, 0xE0, 0xE1, 0xEC, 0xED, 0xEE, 0xEF, 0xF0, 0xF1, 0xF3, 0xF4, 0xF5, 0xF7, 0xF8, 0xFE, 0xFF];
    const CONTS: [u8; 8] = [0x7F, 0x80, 0x8F, 0x90, 0x9F, 0xA0, 0xBF, 0xC0];
    ctx.bound("utf8_classes", "texts 'a' + sequence + 'b' + NUL where the sequence is a lead byte from {7F,80,BF,C0,C1,C2,DF,E0,E1,EC,ED,EE,EF,F0,F1,F3,F4,F5,F7,F8,FE,FF} followed by 0..=3 bytes over {7F,80,8F,90,9F,A0,BF,C0} (12870 sequences: every boundary of the UTF-8 well-formedness table), and the same with the sequence directly before the NUL; the three string kinds, tag level");
    for kind in KINDS.iter() {
        for &lead in &LEADS {
            for k in 0..=3usize {
                for code in 0..CONTS.len().pow(k as u32) {
                    for tail_b in [true, false] {
                        let mut content = vec![b'a', lead];
                        for i in 0..k {
                            content.push(CONTS[(code / CONTS.len().pow(i as u32)) % CONTS.len()]);
                        }
                        if tail_b {
                            content.push(b'b');
                        }
                        content.push(0);
                        let img = tag_image(kind, &content);
                        let mut padded = img.clone();
                        while padded.len() % 8 != 0 {
                            padded.push(0);
                        }
                        let describe = || J::obj().set("seam", "tag-utf8").set("kind", kind.name).set("content", J::hex(&content));
                        ctx.leaf(describe, |ctx| {
                            ctx.state_direct();
                            ctx.nontrivial();
                            arena.fill(arena::FILL_A);
                            let p = arena.place_right(&padded);
                            let slice: &[u8] = unsafe { std::slice::from_raw_parts(p, padded.len()) };
                            let r = ctx.call("cast+text", || typed_text(kind, Generic::ref_from_slice(slice).unwrap()));
                            judge(ctx, kind, &content, r, "tag");
                        });
                    }
                }
            }
        }
    }
}

#[cfg(feature = "builder")]
fn build_side(ctx: &mut Ctx) {
    use multiboot2::MaybeDynSized;
    const SYMS: [&str; 6] = ["a", "\u{e9}", "\u{20ac}", "\0", " ", "\n"];
    let maxsym = if ctx.quick() { 4 } else { 6 };
    ctx.bound("build", format!("all strings over {{a, e-acute (2 bytes), euro sign (3 bytes), NUL, space, newline}} up to {} symbols plus strings of every length 0..=300 and 1023..1025, 4095..4097, 65535..65537, 2^24-1..2^24+1 (quick tier: 2^24 only) (ASCII, and with a multi-byte last character), and every ASCII character plus 23 other code points (encoding-length boundaries, BOM, zero-width / line / paragraph separators, no-break and ideographic space, case-folding specials) alone / first / last / doubled / next to a space, every ordered pair of 14 punctuation characters in five arrangements, 21 texts as boot loaders pass them (paths with arguments, quoted arguments, key=value, loader names), for CommandLineTag::new, BootLoaderNameTag::new and ModuleTag::new", maxsym));
    let mut texts: Vec<String> = Vec::new();
    for n in 0..=maxsym {
        for code in 0..6usize.pow(n as u32) {
            let mut s = String::new();
            let mut c = code;
            for _ in 0..n {
                s.push_str(SYMS[c % 6]);
                c /= 6;
            }
            texts.push(s);
        }
    }
    for n in (0..=300usize).chain([1023, 1024, 1025, 4095, 4096, 4097, 65535, 65536, 65537, (1 << 24) - 1, 1 << 24, (1 << 24) + 1]) {
        if n > (1 << 21) && ctx.quick() {
            // 16 MiB texts: the quick tier keeps one length, ASCII only
            if n == (1 << 24) {
                texts.push((0..n).map(|i| (b'A' + (i % 26) as u8) as char).collect());
            }
            continue;
        }
        texts.push((0..n).map(|i| (b'A' + (i % 26) as u8) as char).collect());
        if n >= 2 {
            // the same length in bytes, ending in a two-byte character
            let mut t: String = (0..n - 2).map(|i| (b'a' + (i % 26) as u8) as char).collect();
            t.push('\u{e9}');
            texts.push(t);
        }
    }
    // content-dependent handling (trimming, collapsing, case folding, escaping): every ASCII character and a few
    // multi-byte ones alone, at the start, at the end, doubled, and around a space
    for cp in (1u32..128).chain([0xE9, 0x20AC, 0x1F600, 0xA0, 0x2028, 0x80, 0x85, 0xAD, 0xDF, 0x130, 0x7FF, 0x800, 0x200B, 0x2029, 0x212A, 0x3000, 0xD7FF, 0xE000, 0xFEFF, 0xFFFD, 0xFFFF, 0x10000, 0x10FFFF]) {
        let ch = char::from_u32(cp).unwrap();
        for t in [format!("{}", ch), format!("x{}", ch), format!("{}x", ch), format!("{}{}", ch, ch), format!("a {}b", ch), format!("A{}Z{}", ch, ch)] {
            texts.push(t);
        }
    }
    // two special characters at a time (a path and a space, a pair of quotes, key=value, an escape): every ordered pair
    // over 14 punctuation characters in five arrangements
    const PUNCT: [char; 14] = ['/', ' ', '"', '\'', '=', '\\', '\n', '\t', '-', ',', ';', ':', '#', '.'];
    for &c1 in PUNCT.iter() {
        for &c2 in PUNCT.iter() {
            for t in [format!("{}{}", c1, c2), format!("{}x{}y", c1, c2), format!("x{}y{}", c1, c2), format!("{}abc{}", c1, c2), format!("{}ab{}cd{}ef", c1, c2, c2)] {
                if !texts.contains(&t) {
                    texts.push(t);
                }
            }
        }
    }
    // texts that already end in NUL, of every length 1..=17 (the stored bytes then end on every residue modulo 8)
    for n in 0..=16usize {
        let mut t: String = (0..n).map(|i| (b'a' + (i % 26) as u8) as char).collect();
        t.push('\0');
        if !texts.contains(&t) {
            texts.push(t);
        }
    }
    // texts as boot loaders pass them
    for t in ["/boot/initrd.img root=/dev/ram0 quiet", "/boot/vmlinuz-6.1 root=UUID=0a1b ro quiet splash", "(hd0,1)/boot/kernel.elf --serial com1", "\"quoted module\" arg", "'single' arg", "console=ttyS0,115200n8 ", " root=/dev/sda1", "BOOT_IMAGE=/vmlinuz init=/bin/sh --", "GRUB 2.06", "GRUB 2.12~rc1-1", "Limine 5.20231207.1", "rEFInd 0.14", "a  b", "--", "/", "/ x", "x /y z", "key=\"v w\" k2='x'", "C:\\EFI\\boot\\bootx64.efi arg", "tab\tseparated\targs", "line1\nline2"] {
        texts.push(t.to_string());
    }
    for kind in KINDS.iter() {
        for text in &texts {
            let describe = || J::obj().set("seam", "constructor").set("kind", kind.name).set("text_len", text.len()).set("text_utf8_bytes_head", J::hex(&text.as_bytes()[..text.len().min(96)]));
            ctx.leaf(describe, |ctx| {
                ctx.state_direct();
                ctx.nontrivial();
                let r = ctx.call("new+read back", || {
                    // (declared size, bytes up to the declared size, read-back text)
                    match kind.typ {
                        bi::CMDLINE => {
                            let t = CommandLineTag::new(text);
                            (t.header().size, t.as_bytes().to_vec(), t.cmdline().map(|s| s.to_string()).map_err(|_| ()), std::mem::size_of_val(&*t))
                        }
                        bi::BOOTLOADER => {
                            let t = BootLoaderNameTag::new(text);
                            (t.header().size, t.as_bytes().to_vec(), t.name().map(|s| s.to_string()).map_err(|_| ()), std::mem::size_of_val(&*t))
                        }
                        _ => {
                            let t = ModuleTag::new(0x1000, 0x2fff, text);
                            (t.header().size, t.as_bytes().to_vec(), t.cmdline().map(|s| s.to_string()).map_err(|_| ()), std::mem::size_of_val(&*t))
                        }
                    }
                });
                let Out::Val((size, bytes, back, sov)) = r else {
                    ctx.violation(&format!("c17/build/panic/{}", kind.name), || format!("constructor panicked for text {:?}", text));
                    return;
                };
                ctx.ob("build.size", size as u64);
                // the boxed tag occupies exactly its size rounded up to 8 (a builder copies the whole box)
                if sov != round8(size as usize) {
                    ctx.violation(&format!("c17/build/in-memory-size/{}", kind.name), || format!("text {:?}: size field {} but the boxed tag occupies {} bytes", text, size, sov));
                }
                let tb = text.as_bytes();
                let has_nul = tb.contains(&0);
                let stored_want: Vec<u8> = if tb.last() == Some(&0) { tb.to_vec() } else { [tb, &[0]].concat() };
                let interior_nul_only = has_nul && tb.last() != Some(&0);
                // the property speaks about NUL-free strings and strings ending in NUL
                if !interior_nul_only {
                    let want_size = kind.fixed + stored_want.len();
                    if size as usize != want_size {
                        ctx.violation(&format!("c17/build/size/{}", kind.name), || format!("text {:?}: size {} but fixed {} + {} stored bytes = {}", text, size, kind.fixed, stored_want.len(), want_size));
                    } else if bytes.len() < want_size || bytes[kind.fixed..want_size] != stored_want[..] {
                        ctx.violation(&format!("c17/build/stored-bytes/{}", kind.name), || format!("text {:?}: stored {:02x?}, expected {:02x?}", text, &bytes[kind.fixed.min(bytes.len())..(size as usize).min(bytes.len())], stored_want));
                    }
                }
                let want_back: &str = &text[..tb.iter().position(|&b| b == 0).unwrap_or(tb.len())];
                match back {
                    Ok(s) if s == want_back => ctx.class(if has_nul { "build:with-nul" } else { "build:round-trip" }),
                    other => ctx.violation(&format!("c17/build/read-back/{}", kind.name), || format!("text {:?} reads back as {:?}, expected {:?}", text, other, want_back)),
                }
            });
        }
    }
}

#[cfg(not(feature = "builder"))]
fn build_side(ctx: &mut Ctx) {
    ctx.bound("build", "constructors are not part of this configuration (no builder/alloc feature)");
}

fn run(ctx: &mut Ctx) {
    let arena = Arena::new(2);
    parse_side(ctx, &arena);
    let long_arena = Arena::new(4200);
    parse_long(ctx, &arena, &long_arena);
    utf8_classes(ctx, &arena);
    if !ctx.uniform() {
        build_side(ctx);
    }
}

fn main() {
    main_wrap("C17", run);
}
