//! Part of the engine that links the crates under test: shared entry point
//! and helpers used by several property checks.
pub use mbvcore::*;

/// Common `main` of every check binary.
pub fn main_wrap(prop: &str, run: fn(&mut Ctx)) {
    let a: Vec<String> = std::env::args().collect();
    if a.len() >= 2 && a[1] == "--merge-states" {
        println!("{}", mbvcore::ctx::merge_states(&a[2..]));
        return;
    }
    let opts = Opts::from_args(prop);
    let mut ctx = Ctx::new(opts);
    run(&mut ctx);
    ctx.finish();
}

/// Address of a reference relative to a base pointer (address-free transcripts).
#[inline]
pub fn rel<T: ?Sized>(r: &T, base: *const u8) -> i64 {
    (r as *const T as *const u8 as usize as i64).wrapping_sub(base as usize as i64)
}
