//! Part of the engine that links the crates under test: shared entry point
//! and helpers used by several property checks.
pub use mbvcore::*;
pub mod battery;
pub mod hbattery;

/// Common `main` of every check binary.
pub fn main_wrap(prop: &str, run: fn(&mut Ctx)) {
    let a: Vec<String> = std::env::args().collect();
    if a.len() >= 2 && a[1] == "--merge-states" {
        println!("{}", mbvcore::ctx::merge_states(&a[2..]));
        return;
    }
    let opts = Opts::from_args(prop);
    let mut ctx = Ctx::new(opts);
    if ctx.opts.extra("digests").is_some() {
        ctx.enable_digests();
    }
    if ctx.opts.extra("logger").is_some() {
        // a logger that accepts everything and drops it: the crates' log macros evaluate their arguments
        struct Sink;
        impl log::Log for Sink {
            fn enabled(&self, _: &log::Metadata) -> bool {
                true
            }
            fn log(&self, r: &log::Record) {
                // format the message (as a real logger would), then drop it
                use std::fmt::Write;
                let mut s = String::new();
                let _ = write!(s, "{}", r.args());
                std::hint::black_box(s.len());
            }
            fn flush(&self) {}
        }
        static SINK: Sink = Sink;
        let _ = log::set_logger(&SINK);
        log::set_max_level(log::LevelFilter::Trace);
    }
    {
        let kib = mbvcore::stack_limit_kib();
        let uniform = ctx.opts.extra("uniform").is_some();
        ctx.bound("environment", format!("main-thread stack limit {} KiB; `log` logger {}; exact-alignment poisoning allocator in the builder-side engines", kib, if uniform { "installed at level Trace in all four configurations (cross-configuration run)" } else { "installed at level Trace in the dev-profile binaries (log macro arguments are evaluated), not installed in the release binaries" }));
    }
    // a panic that escapes a leaf is a defect of the harness, not a verdict: say where it came from
    let r = std::panic::catch_unwind(std::panic::AssertUnwindSafe(|| run(&mut ctx)));
    if r.is_err() {
        eprintln!("HARNESS-PANIC (machinery): {}", mbvcore::ctx::last_panic());
        std::process::exit(101);
    }
    ctx.finish();
}

/// Address of a reference relative to a base pointer (address-free transcripts).
#[inline]
pub fn rel<T: ?Sized>(r: &T, base: *const u8) -> i64 {
    (r as *const T as *const u8 as usize as i64).wrapping_sub(base as usize as i64)
}

/// Full-domain (2^32) or sub-lattice sweep of a law over `u32`, one leaf per
/// block.  `law` returns `Err(description)` for a value that breaks the law;
/// a panic inside `law` is itself a violation and ends the block (the first
/// panicking value is reported).
pub fn sweep_u32(ctx: &mut Ctx, name: &'static str, key: &str, full: bool, evals_per_value: u64, law: impl Fn(u32) -> Result<u64, String>) {
    use std::cell::Cell;
    let blocks: u64 = if full { 4096 } else { 64 };
    for blk in 0..blocks {
        let describe = || {
            J::obj()
                .set("sweep", name)
                .set("block", blk)
                .set("domain", if full { "all 2^32 values, block = 2^20 consecutive values" } else { "lattice h<<16|l, h all 65536 values, l in 0..=31 and 0xFFE0..=0xFFFF; block = 1024 values of h" })
        };
        ctx.leaf(describe, |ctx| {
            let cur = Cell::new(0u32);
            let n = Cell::new(0u64);
            let acc = Cell::new(0u64);
            let bad: Cell<Option<(u32, String)>> = Cell::new(None);
            let r = ctx.call(name, || {
                let mut one = |x: u32| {
                    cur.set(x);
                    n.set(n.get() + 1);
                    match law(x) {
                        Ok(v) => acc.set(acc.get().wrapping_mul(31).wrapping_add(v)),
                        Err(e) => {
                            let b = bad.take();
                            bad.set(b.or(Some((x, e))));
                        }
                    }
                };
                if full {
                    let lo = (blk << 20) as u32;
                    for i in 0..(1u32 << 20) {
                        one(lo + i);
                    }
                } else {
                    for h in (blk << 10)..((blk + 1) << 10) {
                        for l in (0..32u32).chain(0xFFE0..0x1_0000) {
                            one((h as u32) << 16 | l);
                        }
                    }
                }
            });
            ctx.transitions += (n.get() * evals_per_value).saturating_sub(1);
            ctx.ob("sweep.acc", acc.get());
            ctx.state_direct();
            ctx.nontrivial();
            ctx.class("sweep:block");
            if r.is_panic() {
                ctx.violation(&format!("{}/panic", key), || format!("{} panicked for value {:#x}", name, cur.get()));
            }
            if let Some((x, e)) = bad.take() {
                ctx.violation(key, || format!("{}: value {:#x}: {}", name, x, e));
            }
        });
    }
}

/// Counting global allocator (O7 ledger): live allocation count, and an
/// optional per-thread log of (ptr, size, align, is_alloc).
pub mod ledger {
    use std::alloc::{GlobalAlloc, Layout, System};
    use std::cell::{Cell, RefCell};
    use std::sync::atomic::{AtomicI64, Ordering};

    pub struct Counting;
    pub static LIVE: AtomicI64 = AtomicI64::new(0);
    thread_local! {
        static REC: Cell<bool> = const { Cell::new(false) };
        static TLIVE: Cell<i64> = const { Cell::new(0) };
        static LOG: RefCell<Vec<(usize, usize, usize, bool)>> = const { RefCell::new(Vec::new()) };
    }
    // The allocator honours the requested alignment *exactly*: a block requested with alignment a < 16 lies at an
    // address that is a multiple of a but not of 2a (byte buffers of even size: at 8 modulo 16) (the system allocator would hand out 16-aligned blocks and hide a
    // request for too small an alignment). Blocks with a >= 16 come straight from the system allocator.
    fn backing(l: Layout) -> (Layout, usize) {
        if l.align() < 16 {
            // byte buffers (alignment 1): odd addresses for odd sizes, 8-aligned (not 16-aligned) ones for even
            // sizes, so that code with a fast path for aligned input sees both
            let off = if l.align() == 1 && l.size() % 2 == 0 { 8 } else { l.align() };
            (unsafe { Layout::from_size_align_unchecked(l.size() + 16, 16) }, off)
        } else {
            (l, 0)
        }
    }
    // Bump mode (per thread): blocks are handed out back to back from one region, as a kernel's early allocator does -
    // the end of one block is the start of the next whenever the alignment allows it.
    thread_local! {
        static BUMP: Cell<(usize, usize, usize)> = const { Cell::new((0, 0, 0)) }; // (base, cursor, end); cursor 0 = off
    }
    const BUMP_SIZE: usize = 1 << 20;
    /// Switch bump mode on (the region starts empty again) or off.
    pub fn bump(on: bool) {
        BUMP.with(|b| {
            let (mut base, _, mut end) = b.get();
            if base == 0 {
                base = unsafe { System.alloc(Layout::from_size_align_unchecked(BUMP_SIZE, 4096)) } as usize;
                end = base + BUMP_SIZE;
            }
            b.set((base, if on { base } else { 0 }, end));
        });
    }
    fn in_bump(p: usize) -> bool {
        BUMP.try_with(|b| { let (base, _, end) = b.get(); base != 0 && p >= base && p < end }).unwrap_or(false)
    }
    unsafe impl GlobalAlloc for Counting {
        unsafe fn alloc(&self, l: Layout) -> *mut u8 {
            if let Ok(Some(p)) = BUMP.try_with(|b| {
                let (base, cur, end) = b.get();
                if cur == 0 || l.size() == 0 {
                    return None;
                }
                let p = (cur + l.align() - 1) & !(l.align() - 1);
                if p + l.size() > end {
                    return None;
                }
                b.set((base, p + l.size(), end));
                Some(p as *mut u8)
            }) {
                std::ptr::write_bytes(p, 0x11, l.size());
                let _ = TLIVE.try_with(|c| c.set(c.get() + 1));
                log(p as usize, l, true);
                return p;
            }
            let (bl, off) = backing(l);
            let base = System.alloc(bl);
            if base.is_null() {
                return base;
            }
            let p = base.add(off);
            // poison fresh memory: content the library forgets to write is deterministic
            // and distinguishable (markers have the high bit set, texts are letters)
            std::ptr::write_bytes(p, 0x11, l.size());
            let _ = TLIVE.try_with(|c| c.set(c.get() + 1));
            log(p as usize, l, true);
            p
        }
        unsafe fn dealloc(&self, p: *mut u8, l: Layout) {
            let _ = TLIVE.try_with(|c| c.set(c.get() - 1));
            log(p as usize, l, false);
            if in_bump(p as usize) {
                return; // the region is recycled as a whole
            }
            let (bl, off) = backing(l);
            System.dealloc(p.sub(off), bl)
        }
        unsafe fn realloc(&self, p: *mut u8, l: Layout, n: usize) -> *mut u8 {
            let nl = Layout::from_size_align_unchecked(n, l.align());
            let q = self.alloc(nl);
            if !q.is_null() {
                std::ptr::copy_nonoverlapping(p, q, l.size().min(n));
                self.dealloc(p, l);
            }
            q
        }
    }
    fn log(p: usize, l: Layout, is_alloc: bool) {
        let _ = REC.try_with(|r| {
            if r.get() {
                r.set(false); // the log's own growth must not recurse
                let _ = LOG.try_with(|g| g.borrow_mut().push((p, l.size(), l.align(), is_alloc)));
                r.set(true);
            }
        });
    }
    /// Net number of live allocations made by the calling thread.
    pub fn live() -> i64 {
        let _ = LIVE.load(Ordering::Relaxed);
        TLIVE.with(|c| c.get())
    }
    /// Record every allocator call made by `f` on this thread.
    pub fn record<T>(f: impl FnOnce() -> T) -> (T, Vec<(usize, usize, usize, bool)>) {
        LOG.with(|g| {
            let mut g = g.borrow_mut();
            g.clear();
            g.reserve(64);
        });
        REC.with(|r| r.set(true));
        let v = f();
        REC.with(|r| r.set(false));
        (v, LOG.with(|g| g.borrow().clone()))
    }
}
