//! Accessor battery for the header crate (see battery.rs).
use crate::battery::Bat;
use crate::*;
use mbvcore::spec::hd;
pub use mbvcore::spec::{Rec, Val};
use multiboot2_header::*;

macro_rules! common {
    ($b:expr, $t:expr) => {
        $b.u("typ", || $t.typ() as u16 as u64);
        $b.u("flags", || $t.flags() as u16 as u64);
        $b.u("size", || $t.size() as u64);
        $b.u("size_of_val", || std::mem::size_of_val($t) as u64);
        $b.dbg("Debug", $t);
    };
}

pub fn address(b: &mut Bat, t: &AddressHeaderTag) {
    common!(b, t);
    b.u("header_addr", || t.header_addr() as u64);
    b.u("load_addr", || t.load_addr() as u64);
    b.u("load_end_addr", || t.load_end_addr() as u64);
    b.u("bss_end_addr", || t.bss_end_addr() as u64);
}
pub fn entry(b: &mut Bat, t: &EntryAddressHeaderTag) {
    common!(b, t);
    b.u("entry_addr", || t.entry_addr() as u64);
}
pub fn entry32(b: &mut Bat, t: &EntryEfi32HeaderTag) {
    common!(b, t);
    b.u("entry_addr", || t.entry_addr() as u64);
}
pub fn entry64(b: &mut Bat, t: &EntryEfi64HeaderTag) {
    common!(b, t);
    b.u("entry_addr", || t.entry_addr() as u64);
}
pub fn console(b: &mut Bat, t: &ConsoleHeaderTag) {
    common!(b, t);
    b.u("console_flags", || t.console_flags() as u32 as u64);
}
pub fn framebuffer(b: &mut Bat, t: &FramebufferHeaderTag) {
    common!(b, t);
    b.u("width", || t.width() as u64);
    b.u("height", || t.height() as u64);
    b.u("depth", || t.depth() as u64);
}
pub fn module_align(b: &mut Bat, t: &ModuleAlignHeaderTag) {
    common!(b, t);
}
pub fn efi_bs(b: &mut Bat, t: &EfiBootServiceHeaderTag) {
    common!(b, t);
}
pub fn relocatable(b: &mut Bat, t: &RelocatableHeaderTag) {
    common!(b, t);
    b.u("min_addr", || t.min_addr() as u64);
    b.u("max_addr", || t.max_addr() as u64);
    b.u("align", || t.align() as u64);
    b.u("preference", || t.preference() as u32 as u64);
}
pub fn info_req(b: &mut Bat, t: &InformationRequestHeaderTag) {
    common!(b, t);
    b.s("requests", || {
        let r = t.requests();
        Ok(unsafe { std::slice::from_raw_parts(r.as_ptr() as *const u8, std::mem::size_of_val(r)) })
    });
    if let Out::Val(r) = b.ctx.call("requests", || t.requests()) {
        for x in r.iter().take(8) {
            b.u("request", || u32::from(*x) as u64);
        }
    }
}
pub fn end(b: &mut Bat, t: &EndHeaderTag) {
    common!(b, t);
}

/// Cast a generic header tag and run the kind's battery.
pub fn tag_level(b: &mut Bat, kind: u16, g: &DynSizedStructure<HeaderTagHeader>) {
    macro_rules! go {
        ($t:ty, $f:expr) => {{
            match b.ctx.call("cast", || g.cast::<$t>()) {
                Out::Val(t) => {
                    b.recs.push(Rec { name: "cast", val: Val::U(rel(t, b.base) as u64) });
                    let f: &dyn Fn(&mut Bat, &$t) = &$f;
                    f(b, t)
                }
                Out::Panic => b.recs.push(Rec { name: "cast", val: Val::Panic }),
            }
        }};
    }
    match kind {
        hd::END => go!(EndHeaderTag, |b, t| end(b, t)),
        hd::INFO_REQ => go!(InformationRequestHeaderTag, |b, t| info_req(b, t)),
        hd::ADDRESS => go!(AddressHeaderTag, |b, t| address(b, t)),
        hd::ENTRY => go!(EntryAddressHeaderTag, |b, t| entry(b, t)),
        hd::CONSOLE => go!(ConsoleHeaderTag, |b, t| console(b, t)),
        hd::FRAMEBUFFER => go!(FramebufferHeaderTag, |b, t| framebuffer(b, t)),
        hd::MODULE_ALIGN => go!(ModuleAlignHeaderTag, |b, t| module_align(b, t)),
        hd::EFI_BS => go!(EfiBootServiceHeaderTag, |b, t| efi_bs(b, t)),
        hd::ENTRY_EFI32 => go!(EntryEfi32HeaderTag, |b, t| entry32(b, t)),
        hd::ENTRY_EFI64 => go!(EntryEfi64HeaderTag, |b, t| entry64(b, t)),
        hd::RELOCATABLE => go!(RelocatableHeaderTag, |b, t| relocatable(b, t)),
        _ => {}
    }
}

/// The typed getter of `kind` on a loaded header, then the kind's battery.
pub fn getter_level(b: &mut Bat, kind: u16, h: &Multiboot2Header, hbase: *const u8) {
    macro_rules! go {
        ($get:expr, $t:ty, $f:expr) => {{
            match b.ctx.call("getter", || $get) {
                Out::Val(Some(t)) => {
                    let t: &$t = t;
                    b.recs.push(Rec { name: "getter", val: Val::U(rel(t, hbase) as u64) });
                    b.base = t as *const $t as *const u8;
                    let f: &dyn Fn(&mut Bat, &$t) = &$f;
                    f(b, t)
                }
                Out::Val(None) => b.recs.push(Rec { name: "getter", val: Val::E(0) }),
                Out::Panic => b.recs.push(Rec { name: "getter", val: Val::Panic }),
            }
        }};
    }
    match kind {
        hd::INFO_REQ => go!(h.information_request_tag(), InformationRequestHeaderTag, |b, t| info_req(b, t)),
        hd::ADDRESS => go!(h.address_tag(), AddressHeaderTag, |b, t| address(b, t)),
        hd::ENTRY => go!(h.entry_address_tag(), EntryAddressHeaderTag, |b, t| entry(b, t)),
        hd::CONSOLE => go!(h.console_flags_tag(), ConsoleHeaderTag, |b, t| console(b, t)),
        hd::FRAMEBUFFER => go!(h.framebuffer_tag(), FramebufferHeaderTag, |b, t| framebuffer(b, t)),
        hd::MODULE_ALIGN => go!(h.module_align_tag(), ModuleAlignHeaderTag, |b, t| module_align(b, t)),
        hd::EFI_BS => go!(h.efi_boot_services_tag(), EfiBootServiceHeaderTag, |b, t| efi_bs(b, t)),
        hd::ENTRY_EFI32 => go!(h.entry_address_efi32_tag(), EntryEfi32HeaderTag, |b, t| entry32(b, t)),
        hd::ENTRY_EFI64 => go!(h.entry_address_efi64_tag(), EntryEfi64HeaderTag, |b, t| entry64(b, t)),
        hd::RELOCATABLE => go!(h.relocatable_tag(), RelocatableHeaderTag, |b, t| relocatable(b, t)),
        _ => {}
    }
}

/// The header's own accessors.
pub fn header_words(b: &mut Bat, h: &Multiboot2Header) {
    b.u("header_magic", || h.header_magic() as u64);
    b.u("arch", || h.arch() as u32 as u64);
    b.u("length", || h.length() as u64);
    b.u("checksum", || h.checksum() as u64);
    b.u("verify_checksum", || h.verify_checksum() as u64);
    b.dbg("Debug(header)", h);
}

/// Walk `iter()`; records (offset relative to the header base, type, flags, size, payload).
pub fn walk(b: &mut Bat, h: &Multiboot2Header, hbase: *const u8, cap: usize) {
    walk_opts(b, h, hbase, cap, false)
}

/// As `walk`; with `resume` the same iterator is asked twice more after a controlled panic (a caller that catches
/// the unwind and goes on): those calls are bound by the same rules.
pub fn walk_opts(b: &mut Bat, h: &Multiboot2Header, hbase: *const u8, cap: usize, resume: bool) {
    if resume {
        // fold-based adapters (an iterator type may override them): what they hand out is bound by the same rules
        match b.ctx.call("iter.count", || h.iter().count()) {
            Out::Val(n) => b.recs.push(Rec { name: "iter.count", val: Val::U(n as u64) }),
            Out::Panic => b.recs.push(Rec { name: "iter.count", val: Val::Panic }),
        }
        match b.ctx.call("iter.last", || h.iter().last()) {
            Out::Val(Some(t)) => {
                b.recs.push(Rec { name: "iter.last", val: Val::S { off: rel(t, hbase), len: std::mem::size_of_val(t), hash: 0 } });
                let save = b.base;
                b.base = hbase;
                b.s("iter.last.payload", || Ok(t.payload()));
                b.base = save;
            }
            Out::Val(None) => b.recs.push(Rec { name: "iter.last", val: Val::E(0) }),
            Out::Panic => b.recs.push(Rec { name: "iter.last", val: Val::Panic }),
        }
    }
    if resume {
        // position-based adapters (nth, skip, step_by) on fresh iterators: an override that hops by size fields is bound
        // by the same rules, and so is the Debug output of an iterator in every position
        for k in 0..=4usize {
            for (name, which) in [("iter.nth", 0), ("iter.skip", 1), ("iter.step_by", 2)] {
                let r = b.ctx.call(name, || match which {
                    0 => h.iter().nth(k),
                    1 => h.iter().skip(k).next(),
                    _ => h.iter().step_by(k + 1).nth(1),
                });
                match r {
                    Out::Val(Some(t)) => {
                        b.recs.push(Rec { name, val: Val::S { off: rel(t, hbase), len: std::mem::size_of_val(t), hash: 0 } });
                        let save = b.base;
                        b.base = hbase;
                        b.s("iter.adapter.payload", || Ok(t.payload()));
                        b.base = save;
                    }
                    Out::Val(None) => b.recs.push(Rec { name, val: Val::E(0) }),
                    Out::Panic => b.recs.push(Rec { name, val: Val::Panic }),
                }
            }
            let mut it = h.iter();
            let advanced = b.ctx.call("iter.advance", || {
                for _ in 0..k {
                    if it.next().is_none() {
                        break;
                    }
                }
            });
            if !advanced.is_panic() {
                b.dbg("Debug(iter, advanced)", &it);
            }
        }
    }
    if let Out::Val(mut it) = b.ctx.call("iter", || h.iter()) {
        b.dbg("Debug(iter)", &it);
        for _ in 0..cap {
            match b.ctx.call("iter.next", || it.next()) {
                Out::Panic => {
                    b.recs.push(Rec { name: "iter.next", val: Val::Panic });
                    if resume {
                        for _ in 0..2 {
                            match b.ctx.call("iter.next-after-panic", || it.next()) {
                                Out::Panic => b.recs.push(Rec { name: "iter.resumed", val: Val::Panic }),
                                Out::Val(None) => {
                                    b.recs.push(Rec { name: "iter.resumed", val: Val::E(0) });
                                    break;
                                }
                                Out::Val(Some(t)) => b.recs.push(Rec { name: "iter.resumed", val: Val::S { off: rel(t, hbase), len: std::mem::size_of_val(t), hash: 0 } }),
                            }
                        }
                    }
                    return;
                }
                Out::Val(None) => {
                    b.recs.push(Rec { name: "iter.next", val: Val::E(0) });
                    return;
                }
                Out::Val(Some(t)) => {
                    b.recs.push(Rec { name: "iter.next", val: Val::S { off: rel(t, hbase), len: std::mem::size_of_val(t), hash: 0 } });
                    b.u("tag.typ", || t.header().typ() as u16 as u64);
                    b.u("tag.flags", || t.header().flags() as u16 as u64);
                    b.u("tag.size", || t.header().size() as u64);
                    let save = b.base;
                    b.base = hbase;
                    b.s("tag.payload", || Ok(t.payload()));
                    b.base = save;
                    b.dbg("tag.Debug", t);
                }
            }
        }
        b.recs.push(Rec { name: "iter.unbounded", val: Val::U(1) });
    }
}
